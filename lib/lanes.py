"""Watchdog stall signature (M8) and sanitizer lanes (M9)."""
import os
import subprocess
import time


def _thread_cpu(pid):
    out = {}
    try:
        for tid in os.listdir(f"/proc/{pid}/task"):
            try:
                with open(f"/proc/{pid}/task/{tid}/stat") as f:
                    fields = f.read().rsplit(")", 1)[1].split()
                out[tid] = (fields[0], int(fields[11]) + int(fields[12]))
            except OSError:
                pass
    except OSError:
        pass
    return out


def stall_signature(pid):
    """Sample per-thread CPU time twice, 2 s apart. stalled = no thread consumed CPU
    and none is runnable. Anything else (still burning CPU) is merely slow."""
    a = _thread_cpu(pid)
    time.sleep(2.0)
    b = _thread_cpu(pid)
    progressed = [t for t in b if t in a and b[t][1] != a[t][1]]
    runnable = [t for t in b if b[t][0] == "R"]
    bt = ""
    try:
        bt = subprocess.run(["gdb", "-p", str(pid), "-batch", "-ex", "thread apply all bt 12"],
                            stdout=subprocess.PIPE, stderr=subprocess.DEVNULL, text=True, timeout=60).stdout[-8000:]
    except Exception as e:  # noqa: BLE001
        bt = f"(gdb failed: {e})"
    return {"stalled": not progressed and not runnable, "threads": len(b), "progressed": len(progressed), "backtrace": bt}


def run_lane(inv, prop, tier, seed, scratch, index, env):
    raise NotImplementedError("sanitizer lanes are registered in lib/plan.py once built")
