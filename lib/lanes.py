"""Watchdog stall signature (M8) and sanitizer lanes (M9) for the check driver."""
import json
import os
import re
import subprocess
import time

HARNESS = os.path.join(os.path.dirname(os.path.dirname(os.path.abspath(__file__))), "harness")
TARGET = "x86_64-unknown-linux-gnu"
MIRIFLAGS = ("-Zmiri-disable-isolation -Zmiri-permissive-provenance -Zmiri-disable-stacked-borrows "
             "-Zmiri-disable-data-race-detector -Zmiri-ignore-leaks -Zmiri-no-short-fd-operations")


def _thread_cpu(pid):
    out = {}
    try:
        for tid in os.listdir(f"/proc/{pid}/task"):
            try:
                with open(f"/proc/{pid}/task/{tid}/stat") as f:
                    fields = f.read().rsplit(")", 1)[1].split()
                out[tid] = (fields[0], int(fields[11]) + int(fields[12]))
            except OSError:
                pass
    except OSError:
        pass
    return out


def stall_signature(pid):
    """Sample per-thread CPU time twice, 2 s apart. stalled = no thread consumed CPU
    and none is runnable. Anything else (still burning CPU) is merely slow."""
    a = _thread_cpu(pid)
    time.sleep(2.0)
    b = _thread_cpu(pid)
    progressed = [t for t in b if t in a and b[t][1] != a[t][1]]
    runnable = [t for t in b if b[t][0] == "R"]
    bt = ""
    try:
        bt = subprocess.run(["gdb", "-p", str(pid), "-batch", "-ex", "thread apply all bt 12"],
                            stdout=subprocess.PIPE, stderr=subprocess.DEVNULL, text=True, timeout=60).stdout[-8000:]
    except Exception as e:  # noqa: BLE001
        bt = f"(gdb failed: {e})"
    return {"stalled": not progressed and not runnable, "threads": len(b), "progressed": len(progressed), "backtrace": bt}


# ---------------------------------------------------------------------------- builds

def _build(lane, env):
    """Returns (binary path or None for miri, seconds)."""
    t0 = time.time()
    e = dict(env)
    if lane == "asan":
        e["RUSTFLAGS"] = "-Zsanitizer=address -Cforce-frame-pointers=yes"
        e["CARGO_TARGET_DIR"] = os.path.join(HARNESS, "target-asan")
        cmd = ["cargo", "+nightly", "build", "--release", "--offline", "--target", TARGET, "--manifest-path", os.path.join(HARNESS, "Cargo.toml")]
        binary = os.path.join(HARNESS, "target-asan", TARGET, "release", "fvh")
    elif lane == "tsan":
        e["RUSTFLAGS"] = "-Zsanitizer=thread"
        e["CARGO_TARGET_DIR"] = os.path.join(HARNESS, "target-tsan")
        cmd = ["cargo", "+nightly", "build", "--release", "--offline", "-Zbuild-std", "--target", TARGET, "--manifest-path", os.path.join(HARNESS, "Cargo.toml")]
        binary = os.path.join(HARNESS, "target-tsan", TARGET, "release", "fvh")
    elif lane == "memcheck":
        # plain release profile without debug assertions (debug_assert! can flip verdicts); line tables kept
        cmd = ["cargo", "build", "--profile", "plain", "--offline", "--manifest-path", os.path.join(HARNESS, "Cargo.toml")]
        binary = os.path.join(HARNESS, "target", "plain", "fvh")
    elif lane == "miri":
        e["MIRIFLAGS"] = MIRIFLAGS
        e["CARGO_TARGET_DIR"] = os.path.join(HARNESS, "target-miri")
        # building = a first tiny run
        cmd = ["cargo", "+nightly", "miri", "run", "--offline", "--manifest-path", os.path.join(HARNESS, "Cargo.toml"), "--", "selftest"]
        binary = None
    else:
        raise ValueError(lane)
    p = subprocess.run(cmd, env=e, stdout=subprocess.PIPE, stderr=subprocess.STDOUT, text=True, cwd=HARNESS)
    if p.returncode != 0:
        return None, time.time() - t0, p.stdout[-3000:]
    return binary, time.time() - t0, ""


# ---------------------------------------------------------------------------- report parsing

FRAME = re.compile(r"#(\d+) (?:0x[0-9a-f]+ (?:in )?)?(.*?) (/\S+?):(\d+)(?::\d+)?(?: |$)")
STD_PATH = ("/rustlib/", "/rustc/", "library/std", "library/core", "library/alloc", "compiler-rt", "sanitizer_common", "tsan_", "asan_")


def _stacks(block):
    """Split a sanitizer report block into stacks: list of lists of (func, path, line)."""
    stacks, cur = [], []
    for line in block.splitlines():
        m = FRAME.search(line)
        if m:
            if m.group(1) == "0" and cur:
                stacks.append(cur)
                cur = []
            cur.append((m.group(2), m.group(3), int(m.group(4))))
        elif cur and not line.strip():
            stacks.append(cur)
            cur = []
    if cur:
        stacks.append(cur)
    return stacks


def _first_user_frame(stack):
    for func, path, line in stack:
        if any(s in path for s in STD_PATH):
            continue
        return func, path, line
    return None


def classify(block, kind):
    """in_scope: the access (asan/memcheck: any of the top 8 frames of any stack; tsan: the first
    non-std frame of either racing access) is in /repo/src. Reports entirely inside third-party
    crates are out of scope (listed, not failed)."""
    stacks = _stacks(block)
    where = None
    if kind == "tsan":
        tops = [_first_user_frame(s) for s in stacks[:2]]
        for t in tops:
            if t and t[1].startswith("/repo/src"):
                where = t
                break
        in_scope = where is not None
        if not in_scope:
            where = next((t for t in tops if t), None)
    else:
        in_scope = False
        for s in stacks:
            for func, path, line in s[:8]:
                if path.startswith("/repo/src"):
                    in_scope = True
                    where = where or (func, path, line)
        if where is None:
            where = next((f for s in stacks for f in s[:1]), None)
    sig_where = f"{os.path.basename(where[1])}:{where[0][:60]}" if where else "unknown"
    return in_scope, sig_where


def parse_asan(text):
    out = []
    for m in re.finditer(r"==\d+==ERROR: (AddressSanitizer|LeakSanitizer): ([^\n]*)\n(.*?)(?:SUMMARY: [^\n]*|\Z)", text, re.S):
        tool, head, body = m.group(1), m.group(2), m.group(3)
        kind = head.split(" on ")[0].split(":")[0].strip()
        in_scope, where = classify(body, "asan")
        out.append({"tool": tool, "kind": kind, "in_scope": in_scope, "where": where, "text": (head + "\n" + body)[:2500]})
    return out


def parse_tsan(text):
    out = []
    for m in re.finditer(r"WARNING: ThreadSanitizer: ([^\n(]*)[^\n]*\n(.*?)(?:SUMMARY: ThreadSanitizer[^\n]*|\Z)", text, re.S):
        kind, body = m.group(1).strip(), m.group(2)
        in_scope, where = classify(body, "tsan")
        out.append({"tool": "ThreadSanitizer", "kind": kind, "in_scope": in_scope, "where": where, "text": body[:2500]})
    return out


def parse_miri(text):
    out = []
    for m in re.finditer(r"error: (Undefined Behavior|unsupported operation|memory leaked|deadlock)[^\n]*\n(.*?)(?:\n\n|\Z)", text, re.S):
        kind, body = m.group(1), m.group(2)
        if kind == "unsupported operation":
            out.append({"tool": "miri", "kind": kind, "in_scope": False, "where": "unsupported", "text": (m.group(0))[:1500], "unsupported": True})
            continue
        loc = re.search(r"--> (\S+?):(\d+)", m.group(0))
        path = loc.group(1) if loc else ""
        in_scope = "/repo/src" in m.group(0)
        out.append({"tool": "miri", "kind": kind, "in_scope": in_scope, "where": os.path.basename(path) + (":" + loc.group(2) if loc else ""), "text": m.group(0)[:2500]})
    return out


def parse_memcheck(text):
    out = []
    blocks = re.split(r"\n==\d+== \n", text)
    for b in blocks:
        head = re.search(r"==\d+== (Invalid (?:read|write|free)[^\n]*|Conditional jump or move depends on uninitialised[^\n]*|Use of uninitialised[^\n]*|Syscall param [^\n]*uninitialised[^\n]*|Mismatched free[^\n]*|Source and destination overlap[^\n]*|Process terminating with[^\n]*SIG(?:SEGV|BUS|ILL)[^\n]*)", b)
        if not head:
            continue
        full = re.findall(r"\(([^()]*?\.rs):(\d+)\)", b)
        in_scope = False
        where = None
        # valgrind runs with --fullpath-after= so paths are complete
        for name, line in full[:8]:
            if "repo/src/" in name:
                in_scope = True
                where = where or (name, line)
        out.append({"tool": "memcheck", "kind": head.group(1)[:80], "in_scope": in_scope, "where": f"{where[0]}:{where[1]}" if where else "unknown", "text": b[:2500]})
    return out


# ---------------------------------------------------------------------------- running

def run_lane(inv, prop, tier, seed, scratch, index, env):
    lane = inv["lane"]
    binary, build_s, err = _build(lane, env)
    results = []
    if binary is None and lane != "miri" or err:
        return [{"engine": f"lane:{lane}", "crashed": "build", "log": err, "cmd": ["build", lane]}]
    reports = []
    runs = 0
    evaluations = 0
    procs = []
    for r_index, run in enumerate(inv["runs"]):
        for shard in range(run.get("shards", 1)):
            if run.get("only_shards") is not None and shard not in run["only_shards"]:
                continue
            out = os.path.join(scratch, f"{prop}-{lane}-{index}-{r_index}-{shard}.json")
            args = [run["engine"], "--tier", tier, "--seed", str(seed + shard * 1000 + r_index), "--prop", prop, "--shard", str(shard), "--shards", str(run.get("shards", 1)), "--out", out]
            for k, v in run.get("args", {}).items():
                args += ["--" + k, str(v)]
            e = dict(env)
            e["VERIF_TMP"] = scratch
            logpath = os.path.join(scratch, f"{prop}-{lane}-{index}-{r_index}-{shard}.log")
            if lane == "asan":
                e["ASAN_OPTIONS"] = "detect_leaks=0:halt_on_error=1:abort_on_error=0:symbolize=1:allocator_may_return_null=1"
                cmd = [binary] + args
            elif lane == "tsan":
                e["TSAN_OPTIONS"] = "halt_on_error=0:report_signal_unsafe=0:second_deadlock_stack=1:history_size=4"
                cmd = [binary] + args
            elif lane == "memcheck":
                cmd = ["valgrind", "--tool=memcheck", "--error-exitcode=0", "--track-origins=no", "--num-callers=20", "--fair-sched=yes", "--fullpath-after=", binary] + args
            else:
                e["MIRIFLAGS"] = MIRIFLAGS
                e["CARGO_TARGET_DIR"] = os.path.join(HARNESS, "target-miri")
                cmd = ["cargo", "+nightly", "miri", "run", "--offline", "--manifest-path", os.path.join(HARNESS, "Cargo.toml"), "--"] + args
            log = open(logpath, "w")
            procs.append((subprocess.Popen(cmd, env=e, stdout=log, stderr=subprocess.STDOUT, cwd=HARNESS), out, logpath, log, cmd, run))
            if len(procs) >= inv.get("parallel", 8):
                _collect(procs, lane, reports, results, inv, tier)
                procs = []
    _collect(procs, lane, reports, results, inv, tier)
    for r in results:
        runs += 1
        evaluations += r.get("evaluations", 0)
    # dedupe reports by (tool, kind, where)
    seen = {}
    for rep in reports:
        key = (rep["tool"], rep["kind"], rep["where"], rep["in_scope"])
        seen.setdefault(key, {"count": 0, "rep": rep})["count"] += 1
    violations = []
    out_of_scope = []
    for (tool, kind, where, in_scope), v in seen.items():
        if v["rep"].get("unsupported"):
            continue
        if in_scope:
            violations.append({"sig": f"{lane}:{kind}:{where}", "msg": f"{tool} report ({v['count']}x): {kind} at {where}\n{v['rep']['text'][:1800]}",
                               "replay": {"engine": f"lane:{lane}", "cmd": v["rep"].get("cmd"), "report": v["rep"]["text"]}})
        else:
            out_of_scope.append(f"{tool}: {kind} at {where} ({v['count']}x)")
    lane_result = {
        "engine": f"lane:{lane}",
        "evaluations": evaluations,
        "distinct_nontrivial": sum(r.get("distinct_nontrivial", 0) for r in results if "crashed" not in r and "watchdog" not in r),
        "rule": f"{lane}: the engines listed in counters re-executed under the tool; in-scope = report whose faulting access / racing access is in /repo/src (top 8 frames for red-zone tools, first non-std frame for races); third-party-internal reports are listed only",
        "samples": [{"lane": lane, "runs": [f"{r['engine']} {r.get('args', {})}" for r in inv["runs"]], "out_of_scope_reports": out_of_scope[:6]}],
        "violations": violations + [v for r in results for v in r.get("violations", [])],
        "inconclusive": [i for r in results for i in r.get("inconclusive", [])][:10],
        "counters": {f"{lane}_runs": runs, f"{lane}_reports_in_scope": len(violations), f"{lane}_reports_out_of_scope": len(out_of_scope), f"{lane}_build_s": int(build_s),
                     **{f"{lane}_{k}": v for r in results for k, v in r.get("counters", {}).items() if k.startswith("sched_") and k.endswith("_exercised")},
                     **_observed(lane, results)},
        "notes": [f"{lane} flags: " + (MIRIFLAGS if lane == "miri" else {"asan": "-Zsanitizer=address, detect_leaks=0, halt_on_error=1", "tsan": "-Zsanitizer=thread -Zbuild-std, halt_on_error=0", "memcheck": "valgrind --tool=memcheck on the plain release profile"}[lane])],
        "wall_s": 0,
    }
    broken = [r for r in results if "crashed" in r or "watchdog" in r]
    return [lane_result] + broken


OBSERVED_PREFIXES = ("uring_buffers_", "direct_", "big_", "aligned_buffers", "allocator_roundtrips", "mini_disk_reads", "histories", "images_recovered",
                     "plans_with_", "enter_fault_", "indeterminate_", "calls_checked", "runs", "stale_extent_", "recovered_", "images")


def _observed(lane, results):
    """What the engines saw while running under the tool: evaluations per engine and the counters that show which
    code was driven (buffers handed to the kernel, O_DIRECT round trips, values read back from the device, ...)."""
    out = {}
    for r in results:
        if "crashed" in r or "watchdog" in r:
            continue
        eng = str(r.get("engine", "")).replace(":", "_")
        out[f"{eng}_evaluations"] = out.get(f"{eng}_evaluations", 0) + r.get("evaluations", 0)
        for k, v in r.get("counters", {}).items():
            if k.startswith(OBSERVED_PREFIXES) and isinstance(v, int):
                key = f"{eng}_{k}"
                out[key] = out.get(key, 0) + v
    return out


def _collect(procs, lane, reports, results, inv, tier):
    deadline = time.time() + inv.get("timeout", 1500 if tier == "quick" else 7200)
    for p, out, logpath, log, cmd, run in procs:
        try:
            p.wait(timeout=max(1, deadline - time.time()))
            timed_out = False
        except subprocess.TimeoutExpired:
            sig = stall_signature(p.pid)
            p.kill()
            p.wait()
            timed_out = True
            results.append({"engine": f"lane:{lane}:{run['engine']}", "watchdog": sig, "log": "", "cmd": cmd})
        log.close()
        text = open(logpath, errors="replace").read()
        parsed = {"asan": parse_asan, "tsan": parse_tsan, "miri": parse_miri, "memcheck": parse_memcheck}[lane](text)
        for rep in parsed:
            rep["cmd"] = cmd
        reports.extend(parsed)
        if timed_out:
            continue
        if os.path.exists(out):
            try:
                with open(out) as f:
                    r = json.load(f)
                r["engine"] = f"{lane}:{r.get('engine')}"
                results.append(r)
                continue
            except ValueError:
                pass
        # no engine output: abnormal termination. A sanitizer abort after a report is already a report.
        if not parsed and p.returncode != 0:
            if p.returncode < 0 and -p.returncode in (4, 6, 7, 11):
                # SIGILL / SIGABRT / SIGBUS / SIGSEGV of an instrumented engine without a tool report
                results.append({"engine": f"{lane}:{run['engine']}", "evaluations": 0, "distinct_nontrivial": 0,
                                "violations": [{"sig": f"{lane}:signal-{-p.returncode}:{run['engine']}", "msg": f"{run['engine']} died with signal {-p.returncode} under {lane}: {text[-1500:]}",
                                                "replay": {"engine": f"lane:{lane}", "cmd": cmd}}]})
            else:
                results.append({"engine": f"lane:{lane}:{run['engine']}", "crashed": p.returncode, "log": text[-3000:], "cmd": cmd})
