#!/usr/bin/env python3
"""Regenerate /verif/MANIFEST.json from lib/plan.py + lib/manifest_text.py."""
import json
import os
import subprocess
import sys

ROOT = os.path.dirname(os.path.dirname(os.path.abspath(__file__)))
sys.path.insert(0, os.path.join(ROOT, "lib"))
import plan  # noqa: E402
import manifest_text as mt  # noqa: E402

props = [json.loads(l) for l in open(os.path.join(ROOT, "properties.jsonl"))]
hook_commits = subprocess.run(["git", "-C", "/repo", "log", "--format=%H %s", "--grep=^verif:"], stdout=subprocess.PIPE, text=True).stdout.strip().splitlines()

checks = []
not_applicable = []
for p in props:
    pid = p["id"]
    if pid in plan.PLAN and pid in mt.TEXT:
        spec = plan.PLAN[pid]
        t = mt.TEXT[pid]
        checks.append({
            "property_id": pid,
            "quick_cmd": f"./check {pid} --tier quick",
            "thorough_cmd": f"./check {pid} --tier thorough",
            "evidence_file": f"/verif/evidence/{pid}.json",
            "replay_cmd_template": f"./check {pid} --replay {{path}}",
            "engine": t["engine"],
            "level_claimed": {"category": spec["level"], "text": t["level_text"], "design_ref": f"DESIGN.md section 5 {pid}"},
            "level_note": t["level_note"],
            "technique": t["technique"],
        })
    else:
        not_applicable.append({"property_id": pid, "reason": mt.NOT_YET.get(pid, "check not built yet in this round (runtime-monitoring design in DESIGN.md section 5); not claimed")})

manifest = {
    "version": 1,
    "setup_cmd": "cd /verif/harness && CARGO_NET_OFFLINE=true cargo build --release --offline && ./target/release/fvh selftest",
    "hooks": {
        "guard": "cargo feature `verif` of feoxdb (off by default)",
        "enable": "harness depends on feoxdb = { path = \"/repo\", default-features = false, features = [\"system-alloc\", \"verif\"] }; every ./check rebuilds it with cargo from /repo's working tree",
        "baseline_off_cmd": "cd /repo && cargo nextest run --workspace --no-fail-fast --tool-config-file pb:/w/lib/nextest.toml --profile pb --test-threads 8 --offline",
        "source_commits": [c.split()[0] for c in hook_commits][::-1],
        "add_only": True,
    },
    "engines": mt.ENGINES,
    "checks": checks,
    "notes": mt.NOTES,
    "not_applicable": not_applicable,
}
with open(os.path.join(ROOT, "MANIFEST.json"), "w") as f:
    json.dump(manifest, f, indent=1)
print(f"MANIFEST.json: {len(checks)} checks, {len(not_applicable)} not claimed")
