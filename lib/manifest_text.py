"""Prose for MANIFEST.json (levels, notes, techniques) per property."""

NOTES = ("Technique family: runtime monitoring and sanitizers. Every verdict is 'held on the executions observed'; "
         "evidence files report what the monitors saw. See DESIGN.md.")

ENGINES = [
    {"name": "sweep", "path": "harness/src/engines/sweep.rs", "serves_properties": ["C11"],
     "kind_free_text": "TTL monitors: sweeper = background sweeper racing renewals/replacements at the expiry edge under a virtual clock with delayed sweeper removal; ttlcrash = crash images where an expiring generation supersedes a durable one, recovered with TTL on then off"},
    {"name": "cache", "path": "harness/src/engines/cache.rs", "serves_properties": ["C16"],
     "kind_free_text": "ClockCache API vs reference map: accounting after every call, remove-then-miss, eviction to the low watermark, second-chance rule, concurrent conservation"},
    {"name": "sanitizer lanes", "path": "lib/lanes.py + harness/src/engines/san.rs", "serves_properties": ["C20"],
     "kind_free_text": "the concurrency, model, crash, fuzz-open, fault, liveness and direct-I/O engines rebuilt and re-run under AddressSanitizer, ThreadSanitizer (-Zbuild-std), Miri and valgrind memcheck; reports parsed from logs, deduplicated, classified by whether the access is in /repo/src"},
    {"name": "migrate", "path": "harness/src/engines/migrate.rs", "serves_properties": ["C15"],
     "kind_free_text": "differential monitor for migrate(): legacy sources from the real engine and from the independent codec; three-way comparison (independent decode of destination / independent recovery of source / real recovery of a source copy), file-system side effects, CLI exit codes"},
    {"name": "fuzzopen", "path": "harness/src/engines/fuzzopen.rs", "serves_properties": ["C17"],
     "kind_free_text": "robustness monitor: synthesised + mutated / forged device images opened by the real store in child processes under catch_unwind, panic hook, abort and hang detection, byte-identity check on rejected files, probe workload on stores that open"},
    {"name": "space", "path": "harness/src/engines/space.rs", "serves_properties": ["C05"],
     "kind_free_text": "invariant monitor at quiescent points: data-area partition from the H4 snapshot + independent decode of the raw file + isolation reads + drain/refill epilogue, on small nearly-full devices"},
    {"name": "fault", "path": "harness/src/engines/fault.rs", "serves_properties": ["C09"],
     "kind_free_text": "fault-injection monitor: numbered I/O calls (H1 decision hook) failed before/after per plan, one child process per plan; online read/flush oracle + recovery of durable-prefix and as-is images in fresh processes"},
    {"name": "live", "path": "harness/src/engines/live.rs", "serves_properties": ["C18", "C19"],
     "kind_free_text": "bounded-progress monitors: wb = write-behind drain without flush (pending-work accessor + device trace + recovery of the durable prefix); live = contention scenarios in child processes under a stall-signature watchdog"},
    {"name": "conc", "path": "harness/src/engines/conc.rs + conc2.rs + harness/src/lin.rs", "serves_properties": ["C07", "C08", "C13", "C14", "C16"],
     "kind_free_text": "concurrent runtime monitors: lin = recorded histories + per-key WGL linearizability checker; reuse = genuineness/recency oracle over self-describing values + pinned-extent monitor; memlimit = instantaneous usage bound + quiescent exact accounting; scan = range-result shape/completeness oracle; all with perturbed scheduling points"},
    {"name": "crash", "path": "harness/src/engines/crash.rs", "serves_properties": ["C02", "C03", "C04"],
     "kind_free_text": "trace-based crash-consistency monitor: records the device write/fsync trace of real workloads (hook H1), enumerates crash images (cut x subset of unsynced writes x sector tearing), recovers each with the real store and judges against per-key generation histories and acknowledgements; idem mode re-crashes inside recovery's own writes"},
    {"name": "model", "path": "harness/src/engines/model.rs", "serves_properties": ["C01", "C10", "C11", "C12", "C13", "C14", "C16"],
     "kind_free_text": "differential runtime monitor: seeded single-threaded programs over the whole public API executed on the real store and on the reference model M1, compared after every call (result + whole physical state via the H4 accessor); focus modes bias the generator"},
    {"name": "layout", "path": "harness/src/engines/layout.rs", "serves_properties": ["C10", "C05"],
     "kind_free_text": "oracle: independent codec M6 decodes the raw device after every acknowledged flush and is compared with the model and the store's own snapshot; partition invariant of the data area"},
    {"name": "fsm", "path": "harness/src/engines/fsm.rs", "serves_properties": ["C06"],
     "kind_free_text": "differential monitor: FreeSpaceManager vs bitmap reference, exhaustive over reachable (state, call) pairs on tiny devices + random sequences"},
]

NOT_YET = {}

_MODEL_NOTE = ("Trusted: reference model M1 and (where used) independent codec M6; virtual clock hook; H4 read-only accessors. "
               "Bounded program length (120/220 calls), key alphabet (8-70 keys) and value sizes; coverage is what the seeds reach, reported as (method x residency x outcome x config) cells.")

_CRASH_NOTE = ("Trusted: the crash model (issue-order device, fsync barrier, independent loss + one sector-torn write among unsynced writes), the H1 trace hook, "
               "and the per-key history recorded at the client boundary (one writer per key; real-time order from a global logical clock). Reach = the workloads and cuts enumerated; 16-bit tokens are not attacked cryptographically.")

_CONC_NOTE = ("Trusted: client-boundary history recording with one global logical clock; the sequential register spec (harness/src/lin.rs, 100 lines); H3 scheduling points only add bounded delays. "
              "Probabilistic reach into each window, compensated by targeted delays; evidence counts, per scheduling point, arrivals / perturbed / windows in which another operation completed.")

TEXT = {
    "C20": {
        "engine": "sanitizer lanes (asan, tsan, miri, memcheck)",
        "technique": "compiler sanitizers (ASan, TSan), the Miri undefined-behaviour interpreter and valgrind memcheck watching the stress/model/crash/fault/fuzz engines; log parsing with in-scope classification",
        "level_text": "Four lanes, one tool family per build: ASan over linearizability histories, reuse/scan/memlimit races (with delays inside the scanner's pinned section, at pin/pread/retire/release points), model programs, crash workloads + recoveries, fuzzed opens, contention scenarios (incl. drop with failing device) and the O_DIRECT / AlignedBuffer / allocator paths driven directly (long extents of 257-1024 blocks, failed SQEs, interrupted and failed io_uring_enter with the in-flight buffer monitor), values of 1-4 MiB read back from the device, and the io_uring fault pass of the fault engine; TSan (std rebuilt) over the concurrent engines; Miri (exact use-after-free / out-of-bounds / uninitialised / misalignment detection, many seeds = schedules) over a scan-vs-update-vs-delete-vs-expiry program and a persistent write/flush/read/reopen program on synchronous I/O; memcheck over the io_uring path, uninitialised bytes reaching pwrite, and the direct-I/O paths. Any report whose faulting or racing access lies in /repo/src, or a fatal signal of an instrumented engine, is a violation; dependency-internal reports (scc's unsynchronised bucket counters under TSan) are listed only.",
        "level_note": "Red-zone tools miss intra-object and reused-slot errors (the Miri lane mitigates this for what it runs); Miri runs without its aliasing model and race detector because the dependency scc 2.4.0 trips them; kernel reads of a prematurely freed io_uring buffer are invisible to the tools themselves - the in-flight buffer monitor (hook events queued / completed / dropped) covers the I/O layer dropping its own reference too early, nothing else; only reached code is judged.",
    },
    "C15": {
        "engine": "migrate",
        "technique": "runtime differential monitoring of migrate() against an independent decoder, with file-system side-effect observation (hashes, directory listings, sentinels)",
        "level_text": "Hundreds (quick) to thousands (thorough) of v1/v2 sources: devices written by the real engine in compatibility mode (updates, deletes, reuse, multi-block, TTLs, >256 and >4096 records) and synthesised corner cases (duplicates in either disk order, expired newest generation, record at the last block, v1 keys too long for v3, ambiguous markers with/without opt-in, damaged blocks, v3 source, active journal, pre-existing destination, destination created by somebody else while the migration is writing its temporary copy). On success the destination is v3, its independent decode equals the independent recovery of the source (expired winners kept) and the real recovery of a source copy, it reopens with TTL on (expired winners invisible, nothing older surfaces) and off, report counts match; the source hash never changes; failures leave the directory unchanged and an existing destination untouched; the CLI is run on a quarter of the cases plus usage probes (exit codes 0/1/2).",
        "level_note": "Trusted: independent codec M6 as reference recovery; hashing/listing of the scratch directory. Concurrent external modification of the source is out of scope; the one external event produced is the appearance of a file at the destination path mid-migration.",
    },
    "C17": {
        "engine": "fuzzopen",
        "technique": "runtime robustness monitoring over generated and structure-aware forged device images (panic hook + catch_unwind, abort/hang detection from a parent process, byte-identity hashing)",
        "level_text": "Thousands (quick) to hundreds of thousands (thorough) of images: valid v1/v2/v3 devices synthesised by the independent codec and damaged by 21 mutators including forgeries (among them journal headers that lie about entry count, state or generation with the checksum pair consistent or recomputed)  whose tokens and checksums are recomputed so that they pass the first gate. Every open must return (Ok or Err) without panic, abort or hang; stores that open must answer a probe workload (reads of every listed key, range, insert/update/delete/CAS/increment/patch/TTL, flush, drop) without panicking; files without a recognisable signature must be rejected unmodified; opens failing with InvalidDevice/InvalidMetadata must leave the file byte-identical. One genuine defect found and fixed (journal with generation u64::MAX replayed before the open failed).",
        "level_note": "Trusted: panic hook / process supervision; the independent codec as image writer (unmutated synthesised images must open to exactly their records, otherwise the run is inconclusive). Not coverage-guided.",
    },
    "C05": {
        "engine": "space + crash(partition)",
        "technique": "runtime invariant monitoring at quiescent points (exact partition of the data area from a state snapshot, cross-checked by an independent decode of the raw file), plus the same invariant on stores recovered from enumerated crash images",
        "level_text": "Mixed-extent workloads on 48-256-block v3, v2 and legacy v1 devices (record sizes often within a few bytes of a block multiple, where the format versions round differently) at 60-92 % fill with flushes at seeded points, periodic-flusher-only stretches, 1-8 workers, background readers deferring releases and delays at the retirement/release points. At each of the hundreds of quiescent points per run set: live extents and free runs tile [16,N) exactly (no overlap, no leak, nothing out of bounds), both free-space views agree and are coalesced, disk_usage and the persisted counters equal the live totals, the independent decoder finds each live record in its extent and only zero/complete-marker blocks elsewhere, and every key returns its own bytes. After clean reopen and for every store recovered from a crash image (crash engine, partition mode) the same partition holds. Epilogue: delete everything -> one free run = whole data area; the original fill program is accepted again.",
        "level_note": "Trusted: H4 snapshot accessor, independent codec M6. Quiescent-point invariant only. Reach = the fill levels / fragmentation classes reported.",
    },
    "C09": {
        "engine": "fault",
        "technique": "runtime fault injection at every numbered write/fsync call (before / after the device effect) with online oracles and recovery of the resulting device images in fresh processes",
        "level_text": "Five deterministic workloads; for each, every single I/O call of the faulted phase fails once before and once after taking effect (exhaustive singles), plus persistent failure from every (third, in quick) call on, seeded pairs, and per-class bursts of 1-3 failures (journal/data/marker/metadata writes, fsync); on the io_uring pass additionally every io_uring_enter call fails once with EINTR, three times in a row with EINTR, once with EIO, and EINTR combined with a failed SQE. Per plan: writes are never refused, every get equals the model, flush()==Ok implies the durable prefix recovers to exactly the model, after every flush attempt both the durable prefix and the file as it stands recover (fresh process) to per-key states within [last acknowledged, latest], after faults stop flush succeeds (after an indeterminate failure: after reopening in a new process) and the space partition is intact.",
        "level_note": "Trusted: H1 decision hook and trace, the crash model for the durable prefix, single-writer model of the workload. After an Ok flush the image is also judged under the strict fsync model (what a failed fsync covered is lost unless written again), and every trace is checked against the two-slot journal discipline (generations rise, successful journal writes alternate slots, no attempt targets the slot of the last successful image). Two passes: the synchronous path (before/after semantics exact) and the io_uring path, where a failed SQE is completed by the kernel with EBADF (never 'after') and io_uring_enter is made to fail with EINTR (must be retried) or EIO (indeterminate outcome, judged after reopening in a fresh process); the second pass also follows every buffer handed to the kernel (queued / completion reaped / reference dropped) and fails if the I/O layer drops one that is still in flight.",
    },
    "C18": {
        "engine": "live",
        "technique": "runtime stress under a watchdog with a stall signature (per-thread CPU sampling + backtrace) as the deadlock / lost-wake-up detector",
        "level_text": "Contention scenarios, each in its own process: concurrent flush() callers with writers/readers/scanners on hot keys and delays injected at one flusher phase per run (while it holds the device guard / retirement mutex); flush racing drop with the TTL sweeper at 1 ms holding references; device filled beyond capacity, then emptied; persistent I/O failure followed by drop (final-flush retry limit); failed record writes racing retirements; mid-call disturbances (at the scheduling points inside increment / CAS / patch / insert-if-absent / update_ttl / insert on a thread-private key the key is replaced by a generation that expires at once, expires, is deleted or replaced). Every call, flush and drop must return; pending work must be zero after a quiescent successful flush. A run that exceeds 90 s is a violation only with the stall signature; a busy retry loop is caught by a per-call CPU budget instead (a call that has burnt 20 s of its own thread's CPU time without returning - CPU time does not grow with machine load). This detects deadlocks and lost wake-ups in the schedules produced; it cannot prove termination.",
        "level_note": "Trusted: the stall signature (no thread of the child consumed CPU during 2 s and none runnable) and the per-thread CPU clock. Slow-but-progressing runs are reported inconclusive.",
    },
    "C19": {
        "engine": "live(wb)",
        "technique": "runtime monitoring of pending-work counters and the device trace after the last call, no explicit flush; recovery of the durable prefix; independent decode",
        "level_text": "Stores built with 1..8 shards/workers; bursts that touch every shard (occupancy read back and reported), buffer-filling bursts (>=1024 entries per shard), overwrites/deletes of durable keys (retirement half), busy neighbours, TTL keys removed by the sweeper only, retirements deferred by parked readers and then left to the periodic coordinator alone. Without any flush the pending counters must reach zero, every accepted write must own an extent, the durable prefix must recover to exactly the accepted state, superseded generations must be retired, the journal clear and the data area exactly partitioned; time-to-durable is reported (observed: ~0.1-0.2 s).",
        "level_note": "Trusted: H4 pending-work accessor, H1 trace. A real-time bound cannot be a hard verdict on a shared machine: the failing condition is 10 s without drain plus 5 s of device inactivity.",
    },
    "C07": {
        "engine": "conc(lin)",
        "technique": "runtime history recording + offline per-key linearizability checking (WGL search with memoisation) against a last-writer-wins register spec with the two permitted conservative refusals",
        "level_text": "Thousands (quick) to hundreds of thousands (thorough) of short histories: 2-4 threads x 3-8 calls on 1-3 hot keys (get/insert/delete/CAS/increment/insert_if_absent/JSON-patch append) in two timestamp regimes (all-explicit unique timestamps; all automatic), on memory-only and persistent stores (flusher thread, cache on/off, 1-8 shards) so generations move between resident/cached/offloaded while raced. Each key's sub-history plus a final read must linearize; OlderTimestamp / CAS-false refusals are tolerated only under the statement's side conditions, and how often they are used is reported. Exploration of the interleavings produced; not exhaustive.",
        "level_note": _CONC_NOTE,
    },
    "C08": {
        "engine": "conc(reuse)",
        "technique": "runtime monitoring: self-describing values judged against recorded single-writer write intervals (genuineness + recency), plus an online monitor joining reader extent pins (H3b) with device writes (H1)",
        "level_text": "Readers (get, get_bytes, range_query, CAS with another key's value as expected value) race single-writer-per-key updates across 1-4-block size classes, delete/recreate, TTL-only rewrites (deferred records) and a continuous flush loop on 24-96-block devices, so retired extents are handed to other keys within milliseconds; cache on and off; delays injected at the pin / pread / identity-check / retirement / release points. Every value read must be a complete stored value of that key admissible for the read's interval; KeyNotFound only if absence is admissible; StaleExtent only while the key is being rewritten; no device write may overlap an extent a reader has pinned.",
        "level_note": _CONC_NOTE + " One writer per key; readers never modify.",
    },
    "C02": {
        "engine": "crash",
        "technique": "runtime trace monitoring + enumeration of crash images (cut x lost-subset x sector tearing) replayed into the real recovery; offline oracle over acknowledgement-relative generation windows",
        "level_text": "For every flush()/clean-drop acknowledgement in the recorded workloads, every later cut of the device trace (all cuts on short traces, all fsync-adjacent cuts plus a seeded sample on long ones) is expanded into images: durable prefix + each subset (all subsets when <=4, else empty/all/singles/leave-one-out/random) of the writes not yet covered by a completed fsync, plus sector-torn variants of the in-flight write. Each distinct image is recovered by the real store; every key must hold a generation no older than the last one completed before the acknowledged call began, and acknowledged deletes must stay deleted. A second, chained epoch re-opens a sample of crash images (preferring those where a key has two generations on the device), takes what recovery exposes as acknowledged, deletes / rewrites every recovered key, flushes, and enumerates crash images of that second trace: nothing older than the recovered state may ever come back (this is what catches recovery leaving stale generations behind). A deterministic probe drives the schedule of finding C02-2: two flush workers sharing a retired free run, the first delayed between allocation and the device (hook point flush.allocated); every fsync boundary of that run is a crash point whose durable image must recover both acknowledged keys.",
        "level_note": _CRASH_NOTE,
    },
    "C03": {
        "engine": "crash",
        "technique": "runtime trace monitoring + enumeration of crash images over the whole trace (including first-open of a fresh device) replayed into the real recovery; authenticity oracle over self-describing values; second opinion by an independent decoder",
        "level_text": "Same image enumeration over the WHOLE trace (from the very first metadata write of a fresh device): every image must reopen; every exposed key must be one the application wrote, with a (value, timestamp, expiry) triple that is exactly one of its generations, not older than the last acknowledged one and not invoked after the cut; values must pass the self-check (complete, right key, right write; ghost record heads / marker images embedded in multi-block values must never surface); len() must equal the number of exposed keys; the independent decoder must see the same contents. Two genuine defects found and fixed (fresh-device metadata not fsynced before the first journal write; stale retirement markers in front of a record made durable by another flush worker, C02-2, for which a deterministic split-run probe runs in every check).",
        "level_note": _CRASH_NOTE,
    },
    "C04": {
        "engine": "crash",
        "technique": "runtime trace monitoring of recovery's own writes + nested crash-image enumeration inside recovery; dump comparison across repeated opens",
        "level_text": "Crash images that make recovery write (active journal, stale duplicates, half-retired extents) are opened with the trace hook on: (i) the device is reopened twice more and must yield identical contents; (ii) recovery's own write trace is cut (subsets + tearing) to build image', recovered again and must equal the first successful recovery, with one more nesting level on a sample; (iii) every write issued by recovery must avoid the extents of the records the recovery reported live. A dedicated large scenario makes one recovery retire more than 1024 non-adjacent extents (expired newest generations below the older ones they shadow) and crashes it after every completed fsync of its repair: the next recovery must not serve anything the first one did not (one genuine defect found this way and fixed).",
        "level_note": _CRASH_NOTE,
    },
    "C01": {
        "engine": "model",
        "technique": "runtime differential monitoring against an executable last-writer-wins reference model, state compared after every call",
        "level_text": "Seeded single-threaded programs over every public method run on all 14 configurations {memory, persistent} x {cache} x {ttl} x {v1,v2,v3}; after every call the result and the whole physical state (keys, timestamps, expiries, lengths, index agreement, len, memory_usage) are compared with the model; flush/reopen are placed randomly and systematically (flush-after-every-write and reopen-at-i variants) so each method is observed against resident, cached, on-disk-only, deferred and recovered generations (residency is read from the store and tallied). Exploration: held on the programs executed.",
        "level_note": _MODEL_NOTE,
    },
    "C10": {
        "engine": "model+layout",
        "technique": "runtime monitoring with an independent from-scratch decoder of the device file after every acknowledged flush (plus golden files of the pinned release)",
        "level_text": "Programs on v1, v2 and v3 devices; after every flush() (and after reopen+flush) the raw file is decoded by the independent codec (own CRC32C, metadata newest-valid-generation rule, journal slots, tokens, markers) and must yield exactly the model's keys/values/timestamps/expiries, a clear journal, metadata counters equal to the live totals, zero padding, complete markers on every freed block, and a data area exactly partitioned between live extents and free runs.",
        "level_note": _MODEL_NOTE + " 'Documented layout' = the layout as read from the pinned source; M6 is itself pinned by the selftest and the golden corpus.",
    },
    "C11": {
        "engine": "model",
        "technique": "runtime differential monitoring under a virtual clock stepped to expiry-1/expiry/expiry+1 (sequential part)",
        "level_text": "TTL-biased programs under a virtual clock: every value-reading method is probed at expiry-1 ns, exactly at expiry and at expiry+1 ns; expiry instants are compared exactly before/after flush and clean reopen (TTL on and off); TTL-only updates of on-disk-only keys keep the value. Concurrent part: the background sweeper (1 ms) races renewals, persists and replacement writes of keys 3 ms before / 2 ms after expiry, with its guarded removal delayed 1.5 ms after sampling; renewed keys must stay readable, expired keys must not be served by get/range, keys without expiry must never fail a read. Crash part: an expiring generation supersedes a durable one; for every cut after that, crash images are recovered with TTL on and the clock past the expiry (the expired generation is never served, the older one never resurfaces), then reopened with TTL off (still nothing older), and compared with the same image recovered with TTL off.",
        "level_note": _MODEL_NOTE,
    },
    "C12": {
        "engine": "model",
        "technique": "runtime monitor of assigned timestamps (read back through an accessor) over mixed explicit/automatic programs incl. extreme values, across flush and reopen",
        "level_text": "After every accepted automatically timestamped call the assigned timestamp is read back and must exceed the key's previous generation, every explicit timestamp accepted for the key since open, the timestamp recovered from disk, and the current (virtual) time; an automatic call refused as older on a key the application never pinned is a violation; an explicit timestamp carried only by failing calls must never be reached by later automatic ones. Timestamps of expired newest generations that recovery reads (and then drops) count as recovered from disk; a third of the timestamp/TTL programs begin with a scripted chain (future explicit timestamp + short TTL, expiry, clean reopen, automatic calls on those keys). One known finding (clock-shard saturation by near-max explicit timestamps) is recorded.",
        "level_note": _MODEL_NOTE,
    },
    "C13": {
        "engine": "model",
        "technique": "runtime differential monitoring of len()/memory_usage() after every call, with memory limits (sequential part)",
        "level_text": "Memory-biased programs with limits admitting only some writes: after every call memory_usage() must equal the sum over live keys of (measured overhead + key + value), len() the number of live keys, usage never above the limit, refused writes change nothing (same record objects), and draining every key returns usage to zero; across flush and recovery; every store recovered from an enumerated crash image (crash engine) must account exactly the recovered keys as well. Concurrent part: 8-16 creators/growers/shrinkers/deleters/incrementers against a limit admitting only some of them, with a monitor thread sampling memory_usage() continuously and a deterministic probe reading it while several writers are parked between reservation and publish (hook point mem.reserved): usage <= limit at every sample (len() during the run is reported, not judged: it is a separate counter), refused writes leave the key as it was, exact equality and zero-after-drain at quiescence. Same-key races (the linearizability engine's histories: concurrent upserts / CAS / increments / deletes of one key with different value sizes) are followed by an exact quiescent comparison of memory_usage() with the live records and a drain to zero.",
        "level_note": _MODEL_NOTE,
    },
    "C14": {
        "engine": "model",
        "technique": "runtime differential monitoring of range_query against the model's ordered map; ordered/hashed index agreement at every quiescent point (sequential part)",
        "level_text": "Range-biased programs over byte-string keys with shared prefixes, empty/0x00/0xff bounds, start>end, limits 0/1/exact/usize::MAX, expired entries in the middle, all residencies; results must equal the model's; after every call the ordered index and the hash index hold the same keys pointing at the same record objects. Concurrent part: scanners race churn (insert/update/delete/flush) on keys interleaved lexicographically with a stable key set (20-600 keys, scans crossing the 256-entry re-pin): results strictly ascending, inside bounds, <= limit, each value genuine for its key; every stable key inside the returned window appears exactly once; keys deleted before the scans began never appear; index agreement at quiescence.",
        "level_note": _MODEL_NOTE,
    },
    "C16": {
        "engine": "model",
        "technique": "runtime differential monitoring: identical model, cache on vs cache off, with cache hits confirmed through statistics and the H5 accessor (sequential part)",
        "level_text": "Read-heavy programs with frequent flushes on paired configurations (cache on / off) are each compared step by step with the same reference model, so any call whose result depends on the cache is a mismatch; hits are confirmed (cache_hits delta while the key is cached). Covers updates, deletes, re-creation with lower timestamps, TTL changes and restarts masking stale entries. Concurrent part: the reuse engine (readers racing updates/deletes/TTL rewrites/flushes with genuineness+recency oracle) is run with the cache on, where a stale hit would surface as a stale value. Cache level: the public ClockCache API against a reference map with byte-granular small watermarks: reported memory = sum of entry sizes after every call, remove is followed by a miss, entries vanish only through remove/clear/due eviction, evict_entries ends at or below the low watermark and spares referenced entries when unreferenced ones suffice; 8-thread conservation runs.",
        "level_note": _MODEL_NOTE,
    },
    "C06": {
        "engine": "fsm",
        "technique": "runtime differential monitor against a bitmap reference model (exhaustive state x call enumeration on tiny devices, seeded random sequences)",
        "level_text": "Every allocate/release call is executed on the real FreeSpaceManager and on a bitmap model; results, totals, run count, largest run, fragmentation and both internal views are compared after every call. All reachable (state, call) pairs are enumerated for devices of 3..6 (quick) / 3..8 (thorough) data blocks, and for devices whose size is not a whole number of blocks (trailing partial block out of bounds), over an alphabet that includes reserved, out-of-range and overflowing ranges; larger devices are covered by long random sequences. Exploration, exhaustive only within the stated device bound.",
        "level_note": "Trusted: the bitmap model (40 lines) and the doc-comment fragmentation formula. Allocation policy is not asserted. Devices beyond the bound are sampled, not enumerated.",
    },
}
