"""Prose for MANIFEST.json (levels, notes, techniques) per property."""

NOTES = ("Technique family: runtime monitoring and sanitizers. Every verdict is 'held on the executions observed'; "
         "evidence files report what the monitors saw. See DESIGN.md.")

ENGINES = [
    {"name": "fsm", "path": "harness/src/engines/fsm.rs", "serves_properties": ["C06"],
     "kind_free_text": "differential monitor: FreeSpaceManager vs bitmap reference, exhaustive over reachable (state, call) pairs on tiny devices + random sequences"},
]

NOT_YET = {}

TEXT = {
    "C06": {
        "engine": "fsm",
        "technique": "runtime differential monitor against a bitmap reference model (exhaustive state x call enumeration on tiny devices, seeded random sequences)",
        "level_text": "Every allocate/release call is executed on the real FreeSpaceManager and on a bitmap model; results, totals, run count, largest run, fragmentation and both internal views are compared after every call. All reachable (state, call) pairs are enumerated for devices of 3..6 (quick) / 3..8 (thorough) data blocks over an alphabet that includes reserved, out-of-range and overflowing ranges; larger devices are covered by long random sequences. Exploration, exhaustive only within the stated device bound.",
        "level_note": "Trusted: the bitmap model (40 lines) and the doc-comment fragmentation formula. Allocation policy is not asserted. Devices beyond the bound are sampled, not enumerated.",
    },
}
