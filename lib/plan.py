"""Which engine invocations decide which property, per tier."""

COMMON_ASSUMPTIONS = [
    "harness links feoxdb with features system-alloc+verif (jemalloc off so tools see allocations); hooks are add-only and inert unless a monitor is installed",
    "verdict is about the executions produced by this run only (seeded workloads, schedules actually observed)",
]


def _fsm(tier):
    return [{"engine": "fsm"}]


def _model(focus, configs="all", quick_programs=40, thorough_programs=600, steps_q=120, steps_t=220):
    def f(tier):
        programs = quick_programs if tier == "quick" else thorough_programs
        steps = steps_q if tier == "quick" else steps_t
        return [{"engine": "model", "args": {"focus": focus, "configs": configs, "programs": programs, "steps": steps}}]
    return f


MODEL_ASSUMPTIONS = [
    "reference model M1 (harness/src/model.rs) written from the API docs and property statements; where the statement is silent it follows the code (DESIGN.md section 7)",
    "virtual clock (hook H6, thread-local) replaces wall time for the program's thread; the TTL sweeper is not running in these sequential programs",
    "automatic timestamps are read back through the H4 accessor after each call",
]

PLAN = {
    "C01": {"level": "exploration", "engines": _model("all"), "min_nontrivial": 500, "assumptions": MODEL_ASSUMPTIONS},
    "C10": {"level": "exploration", "engines": _model("layout", quick_programs=24, thorough_programs=400), "min_nontrivial": 300,
            "assumptions": MODEL_ASSUMPTIONS + ["independent codec M6 (harness/src/indep.rs) is the reader; it shares no code with feoxdb"]},
    "C11": {"level": "exploration", "engines": _model("ttl"), "min_nontrivial": 300, "assumptions": MODEL_ASSUMPTIONS},
    "C12": {"level": "exploration", "engines": _model("ts"), "min_nontrivial": 300, "assumptions": MODEL_ASSUMPTIONS},
    "C13": {"level": "exploration", "engines": _model("mem"), "min_nontrivial": 300, "assumptions": MODEL_ASSUMPTIONS},
    "C14": {"level": "exploration", "engines": _model("range"), "min_nontrivial": 300, "assumptions": MODEL_ASSUMPTIONS},
    "C16": {"level": "exploration", "engines": _model("cache", configs="cachepair", quick_programs=60, thorough_programs=1500), "min_nontrivial": 200, "assumptions": MODEL_ASSUMPTIONS},
    "C06": {
        "level": "exploration",
        "engines": _fsm,
        "min_nontrivial": 1000,
        "assumptions": ["reference = bitmap of the data area; allocation policy (best fit) is not asserted"],
    },
}
