"""Which engine invocations decide which property, per tier."""

COMMON_ASSUMPTIONS = [
    "harness links feoxdb with features system-alloc+verif (jemalloc off so tools see allocations); hooks are add-only and inert unless a monitor is installed",
    "verdict is about the executions produced by this run only (seeded workloads, schedules actually observed)",
]


def _fsm(tier):
    return [{"engine": "fsm"}]


PLAN = {
    "C06": {
        "level": "exploration",
        "engines": _fsm,
        "min_nontrivial": 1000,
        "assumptions": ["reference = bitmap of the data area; allocation policy (best fit) is not asserted"],
    },
}
