"""Which engine invocations decide which property, per tier."""

COMMON_ASSUMPTIONS = [
    "harness links feoxdb with features system-alloc+verif (jemalloc off so tools see allocations); hooks are add-only and inert unless a monitor is installed",
    "verdict is about the executions produced by this run only (seeded workloads, schedules actually observed)",
]


def _fsm(tier):
    return [{"engine": "fsm"}]


def _model(focus, configs="all", quick_programs=40, thorough_programs=600, steps_q=120, steps_t=220):
    def f(tier):
        programs = quick_programs if tier == "quick" else thorough_programs
        steps = steps_q if tier == "quick" else steps_t
        return [{"engine": "model", "args": {"focus": focus, "configs": configs, "programs": programs, "steps": steps}}]
    return f


MODEL_ASSUMPTIONS = [
    "reference model M1 (harness/src/model.rs) written from the API docs and property statements; where the statement is silent it follows the code (DESIGN.md section 7)",
    "virtual clock (hook H6, thread-local) replaces wall time for the program's thread; the TTL sweeper is not running in these sequential programs",
    "automatic timestamps are read back through the H4 accessor after each call",
]

def _crash(mode, wq, wt, cuts_q=140, cuts_t=400):
    def f(tier):
        if tier == "quick":
            return [{"engine": "crash", "args": {"mode": mode, "workloads": wq, "cuts": cuts_q}}]
        return [{"engine": "crash", "shards": 4, "args": {"mode": mode, "workloads": wt, "cuts": cuts_t, "threads": 24}}]
    return f


def _crash_split(tier):
    if tier == "quick":
        return [{"engine": "crash", "args": {"mode": "split", "rounds": 8}}]
    return [{"engine": "crash", "shards": 4, "args": {"mode": "split", "rounds": 60}}]


def _crash_aligned(tier):
    if tier == "quick":
        return [{"engine": "crash", "shards": 4, "args": {"mode": "aligned", "rounds": 1}}]
    return [{"engine": "crash", "shards": 4, "args": {"mode": "aligned", "rounds": 40}}]


def _sweep(mode, rq, sq, rt, st):
    def f(tier):
        if tier == "quick":
            return [{"engine": "sweep", "shards": sq, "args": {"mode": mode, "runs": rq}}]
        return [{"engine": "sweep", "shards": st, "args": {"mode": mode, "runs": rt}}]
    return f


def _cache(tier):
    if tier == "quick":
        return [{"engine": "cache", "shards": 8, "args": {"sequences": 64, "steps": 700}}]
    return [{"engine": "cache", "shards": 16, "args": {"sequences": 3200, "steps": 2500}}]


def _crash_chain(tier):
    if tier == "quick":
        return [{"engine": "crash", "args": {"mode": "chain", "workloads": 6, "chain": 6, "cuts": 50}}]
    return [{"engine": "crash", "shards": 4, "args": {"mode": "chain", "workloads": 80, "chain": 10, "cuts": 120, "threads": 24}}]


CRASH_ASSUMPTIONS = [
    "crash model: writes reach the device in issue order; a completed fsync makes everything issued before it durable; writes since the last completed fsync are lost independently and one may be torn at 512-byte sector granularity; file size is stable (block-device abstraction, not a model of a particular filesystem)",
    "device trace taken by hook H1 inside DiskIO (io_uring SQEs are observed at submission); the DiskIO write guard serialises writers so the trace order is the device order",
    "images are recovered by the real FeoxStore opened read-write (TTL off, so expired generations stay visible to the oracle)",
]

def _conc(mode, shards_q, shards_t, q_args, t_args):
    def f(tier):
        if tier == "quick":
            return [{"engine": "conc", "shards": shards_q, "args": dict(mode=mode, **q_args)}]
        return [{"engine": "conc", "shards": shards_t, "args": dict(mode=mode, **t_args)}]
    return f


def _both(*fs):
    def f(tier):
        out = []
        for g in fs:
            out.extend(g(tier))
        return out
    return f


CONC_ASSUMPTIONS = [
    "histories are recorded at the client boundary only (call before invoking, return after the reply) with one global logical clock; nothing is inferred from hook order inside the implementation",
    "scheduling points (hook H3) only add bounded sleeps/yields between critical sections; they cannot create interleavings the program cannot have",
    "coverage = the interleavings these runs produced; windows actually exercised are reported per scheduling point",
]

LIN = _conc("lin", 12, 16, {"histories": 700}, {"histories": 25000})
REUSE = _conc("reuse", 8, 16, {"runs": 10}, {"runs": 120})
MEMLIMIT = _conc("memlimit", 4, 8, {"runs": 12}, {"runs": 300})
SCAN = _conc("scan", 4, 8, {"runs": 6}, {"runs": 150})

def _fault(tier):
    if tier == "quick":
        return [{"engine": "fault", "args": {"threads": 16}},
                {"engine": "fault", "args": {"threads": 16, "io": "uring"}}]
    return [{"engine": "fault", "shards": 4, "args": {"threads": 6}},
            {"engine": "fault", "shards": 4, "args": {"threads": 6, "io": "uring"}}]


def _live(mode, rq, rt):
    def f(tier):
        if tier == "quick":
            return [{"engine": "live", "shards": 4 if mode == "wb" else 1, "args": {"mode": mode, "runs": rq}}]
        return [{"engine": "live", "shards": 4 if mode == "wb" else 2, "args": {"mode": mode, "runs": rt, "threads": 8}}]
    return f


def _space(tier):
    if tier == "quick":
        return [{"engine": "space", "shards": 6, "args": {"runs": 24}},
                {"engine": "crash", "args": {"mode": "partition", "workloads": 8, "cuts": 100}}]
    return [{"engine": "space", "shards": 12, "args": {"runs": 480, "steps": 220}},
            {"engine": "crash", "shards": 4, "args": {"mode": "partition", "workloads": 120, "cuts": 300, "threads": 24}}]


def _fuzz(tier):
    if tier == "quick":
        return [{"engine": "fuzzopen", "args": {"images": 6000, "threads": 12}}]
    return [{"engine": "fuzzopen", "shards": 2, "args": {"images": 300000, "threads": 8}}]


REPO_BIN_DIR = "/verif/harness/target/repo-bin"
BUILD_CLI = {"cmd": ["cargo", "build", "--offline", "--manifest-path", "/repo/Cargo.toml", "--bin", "feox-migrate"], "env": {"CARGO_TARGET_DIR": REPO_BIN_DIR}}


def _migrate(tier):
    args = {"cli": REPO_BIN_DIR + "/debug/feox-migrate", "threads": 12}
    if tier == "quick":
        return [{"engine": "migrate", "pre": [BUILD_CLI], "args": dict(args, sources=360)}]
    return [{"engine": "migrate", "pre": [BUILD_CLI], "shards": 2, "args": dict(args, sources=6000, threads=8)}]


def _san(tier):
    q = tier == "quick"
    asan = {"lane": "asan", "parallel": 8, "runs": [
        {"engine": "conc", "shards": 4 if q else 12, "args": {"mode": "lin", "histories": 250 if q else 4000}},
        {"engine": "conc", "shards": 2 if q else 8, "args": {"mode": "reuse", "runs": 2 if q else 30}},
        {"engine": "conc", "shards": 2 if q else 8, "args": {"mode": "scan", "runs": 2 if q else 30}},
        {"engine": "conc", "shards": 1 if q else 4, "args": {"mode": "memlimit", "runs": 4 if q else 60}},
        {"engine": "model", "args": {"focus": "all", "configs": "v3", "programs": 4 if q else 60, "steps": 100, "threads": 8}},
        {"engine": "model", "args": {"focus": "cache", "configs": "mem", "programs": 6 if q else 60, "steps": 100, "threads": 8}},
        {"engine": "crash", "args": {"mode": "all", "workloads": 3 if q else 30, "cuts": 30 if q else 150, "threads": 16}},
        {"engine": "fuzzopen", "args": {"images": 500 if q else 20000, "threads": 8}},
        {"engine": "fault", "args": {"threads": 8}} if not q else {"engine": "san", "args": {"mode": "mini", "persistent": 1, "ops": 200}},
        {"engine": "san", "args": {"mode": "mini", "persistent": 1, "big": 1, "ops": 50}},
        {"engine": "live", "args": {"mode": "live", "runs": 8 if q else 80, "threads": 4}},
        {"engine": "san", "args": {"mode": "direct", "rounds": 20 if q else 200}},
        {"engine": "sweep", "shards": 1 if q else 4, "args": {"mode": "sweeper", "runs": 3 if q else 24}},
        {"engine": "san", "shards": 2 if q else 8, "args": {"mode": "mini", "ops": 300, "sweeper": 1}},
        {"engine": "fault", "shards": 8 if q else 1, "args": {"threads": 8, "io": "uring"}, "only_shards": [0] if q else None},
    ]}
    tsan = {"lane": "tsan", "parallel": 6, "runs": [
        {"engine": "conc", "shards": 3 if q else 12, "args": {"mode": "lin", "histories": 120 if q else 2000}},
        {"engine": "conc", "shards": 1 if q else 6, "args": {"mode": "scan", "runs": 2 if q else 20}},
        {"engine": "conc", "shards": 1 if q else 6, "args": {"mode": "reuse", "runs": 1 if q else 20}},
        {"engine": "san", "args": {"mode": "mini", "persistent": 1, "big": 1, "ops": 300}},
        {"engine": "sweep", "shards": 1 if q else 4, "args": {"mode": "sweeper", "runs": 2 if q else 16}},
        {"engine": "san", "shards": 1 if q else 4, "args": {"mode": "mini", "ops": 300, "sweeper": 1}},
    ]}
    miri = {"lane": "miri", "parallel": 8, "runs": [
        {"engine": "san", "shards": 6 if q else 64, "args": {"mode": "mini", "ops": 8 if q else 14}},
        {"engine": "san", "shards": 2 if q else 16, "args": {"mode": "mini", "ops": 8 if q else 14, "sweeper": 1}},
        {"engine": "san", "shards": 1 if q else 8, "args": {"mode": "mini", "ops": 4, "persistent": 1}},
    ]}
    memcheck = {"lane": "memcheck", "parallel": 8, "runs": [
        {"engine": "san", "args": {"mode": "mini", "persistent": 1, "big": 1, "ops": 60}},
        {"engine": "conc", "shards": 1 if q else 4, "args": {"mode": "reuse", "runs": 1 if q else 6}},
        {"engine": "model", "args": {"focus": "all", "configs": "v3", "programs": 1 if q else 8, "steps": 60, "threads": 4}},
        {"engine": "san", "args": {"mode": "direct", "rounds": 4 if q else 40}},
    ]}
    return [asan, tsan, miri, memcheck]


PLAN = {
    "C20": {"level": "exploration", "engines": _san, "min_nontrivial": 50,
            "assumptions": ["tools: rustc nightly -Zsanitizer=address (no build-std), -Zsanitizer=thread with -Zbuild-std, Miri with the aliasing model and race detector off (the dependency scc 2.4.0 trips them; see DESIGN.md section 6) and short fd operations off, valgrind 3.19 memcheck on the plain release profile",
                            "a report is in scope when the faulting / racing access is in /repo/src; reports whose accesses are entirely inside third-party crates are listed in evidence, not failed",
                            "kernel-side reads of a freed io_uring buffer are invisible to all of these tools; sanitizers judge only the executions produced"]},
    "C15": {"level": "exploration", "engines": _migrate, "min_nontrivial": 30,
            "assumptions": ["expected contents of a legacy source = recovery by the independent codec with TTL filtering off, cross-checked against the real store opened on a copy of the source", "no other process touches source or destination during migration (outside the property)", "the feox-migrate binary is rebuilt from /repo (dev profile, default features) for the CLI sample"]},
    "C17": {"level": "exploration", "engines": _fuzz, "min_nontrivial": 100,
            "assumptions": ["images are generated randomly and structure-aware (forgeries with recomputed tokens/checksums), not coverage-guided; device sizes up to 128 blocks", "panics are detected with catch_unwind plus a process-wide panic hook (background threads), aborts and hangs by the parent process (60 s without progress)"]},
    "C05": {"level": "exploration", "engines": _space, "min_nontrivial": 100,
            "assumptions": ["the invariant is asserted only at quiescent points (flush acknowledged, caller threads paused); transient reservations mid-flight are legitimate and not asserted", "OutOfSpace caused by fragmentation on a >90 % full device is not a violation; the drain epilogue checks that an emptied device accepts the original fill again"] + CRASH_ASSUMPTIONS[:2]},
    "C09": {"level": "fault_enumeration", "engines": _fault, "min_nontrivial": 100,
            "assumptions": CRASH_ASSUMPTIONS + ["faults are injected on the synchronous I/O path (hook H2 disables io_uring) and, in a second pass, on the io_uring path (SQEs completed with EBADF, io_uring_enter failing with EINTR/EIO), with one flush worker so the I/O calls of a workload can be numbered; each plan runs in its own process because the store keeps a process-wide registry of poisoned files", "read failures are outside the property"]},
    "C18": {"level": "exploration", "engines": _live("live", 96, 3600), "min_nontrivial": 20,
            "assumptions": ["termination is judged by bounded progress: every scenario must finish; a watchdog expiry counts as a violation only with a stall signature (no thread consumed CPU for 2 s, none runnable), otherwise it is inconclusive", "every other engine's child/worker runs under the driver's watchdog as well"]},
    "C19": {"level": "exploration", "engines": _live("wb", 56, 1680), "min_nontrivial": 12,
            "assumptions": ["'bounded' is judged logically (pending-work accessor reaches zero, durable prefix equals the accepted state); wall-clock only fails a run after 10 s without drain AND 5 s without device activity; drain times are reported as a distribution"] + CRASH_ASSUMPTIONS[:2]},
    "C07": {"level": "exploration", "engines": LIN, "min_nontrivial": 500, "assumptions": CONC_ASSUMPTIONS},
    "C08": {"level": "exploration", "engines": REUSE, "min_nontrivial": 20, "assumptions": CONC_ASSUMPTIONS + ["one writer per key, so each key's writes form a sequence with recorded intervals; readers never modify"]},
    "C02": {"level": "fault_enumeration", "engines": _both(_crash("ack", 14, 240), _crash_chain, _crash_split), "min_nontrivial": 200, "assumptions": CRASH_ASSUMPTIONS},
    "C03": {"level": "fault_enumeration", "engines": _both(_crash("all", 14, 240), _crash_split, _crash_chain), "min_nontrivial": 200, "assumptions": CRASH_ASSUMPTIONS},
    "C04": {"level": "fault_enumeration", "engines": _both(_crash("idem", 4, 60, cuts_q=50, cuts_t=120), _sweep("bigretire", 2, 2, 24, 8), _crash_aligned), "min_nontrivial": 50, "assumptions": CRASH_ASSUMPTIONS},
    "C01": {"level": "exploration", "engines": _model("all"), "min_nontrivial": 500, "assumptions": MODEL_ASSUMPTIONS},
    "C10": {"level": "exploration", "engines": _model("layout", quick_programs=36, thorough_programs=400), "min_nontrivial": 300,
            "assumptions": MODEL_ASSUMPTIONS + ["independent codec M6 (harness/src/indep.rs) is the reader; it shares no code with feoxdb"]},
    "C11": {"level": "exploration", "engines": _both(_model("ttl"), _sweep("sweeper", 6, 3, 60, 8), _sweep("ttlcrash", 8, 8, 160, 16), _sweep("bigretire", 2, 2, 24, 8), _sweep("midread", 6, 3, 60, 8)), "min_nontrivial": 300,
            "assumptions": MODEL_ASSUMPTIONS + CONC_ASSUMPTIONS[:2] + ["sweeper runs use the process-wide virtual clock offset (hook H6) for jumps; bounds around calls are taken from that clock before and after each call"]},
    "C12": {"level": "exploration", "engines": _model("ts"), "min_nontrivial": 300, "assumptions": MODEL_ASSUMPTIONS},
    "C13": {"level": "exploration", "engines": _both(_model("mem"), MEMLIMIT, _conc("lin", 6, 12, {"histories": 400}, {"histories": 8000}), _crash("ack", 4, 60, cuts_q=60, cuts_t=200), _sweep("sweeper", 4, 2, 40, 8)), "min_nontrivial": 300, "assumptions": MODEL_ASSUMPTIONS + CONC_ASSUMPTIONS},
    "C14": {"level": "exploration", "engines": _both(_model("range"), SCAN, _sweep("sweeper", 4, 2, 40, 8)), "min_nontrivial": 300, "assumptions": MODEL_ASSUMPTIONS + CONC_ASSUMPTIONS},
    "C16": {"level": "exploration", "engines": _both(_model("cache", configs="cachepair", quick_programs=60, thorough_programs=1500), _conc("reuse", 8, 16, {"runs": 6, "cache": 1}, {"runs": 120, "cache": 1}), _cache), "min_nontrivial": 200, "assumptions": MODEL_ASSUMPTIONS + CONC_ASSUMPTIONS},
    "C06": {
        "level": "exploration",
        "engines": _fsm,
        "min_nontrivial": 1000,
        "assumptions": ["reference = bitmap of the data area; allocation policy (best fit) is not asserted"],
    },
}
