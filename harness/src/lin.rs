//! M3/M4 — recorded concurrent histories and a per-key linearizability checker
//! (WGL-style search with memoisation) against the last-writer-wins register spec,
//! with the two conservative deviations the property statement permits.

use std::collections::HashSet;

#[derive(Clone, Debug, PartialEq, Eq, Hash)]
pub enum OpKind {
    Get,
    /// value, explicit timestamp (None = automatic)
    Insert(Vec<u8>, Option<u64>),
    Delete(Option<u64>),
    /// expected, new
    Cas(Vec<u8>, Vec<u8>, Option<u64>),
    Incr(i64, Option<u64>),
    InsertIfAbsent(Vec<u8>),
    /// appended element
    PatchAppend(u64, Option<u64>),
}

impl OpKind {
    pub fn name(&self) -> &'static str {
        match self {
            OpKind::Get => "get",
            OpKind::Insert(..) => "insert",
            OpKind::Delete(..) => "delete",
            OpKind::Cas(..) => "compare_and_swap",
            OpKind::Incr(..) => "atomic_increment",
            OpKind::InsertIfAbsent(..) => "insert_if_absent",
            OpKind::PatchAppend(..) => "json_patch",
        }
    }
}

#[derive(Clone, Debug, PartialEq, Eq, Hash)]
pub enum Res {
    Value(Vec<u8>),
    Bool(bool),
    Int(i64),
    Unit,
    NotFound,
    Older,
    InvalidOp,
    Other(String),
}

#[derive(Clone, Debug)]
pub struct Event {
    pub thread: usize,
    pub op: OpKind,
    pub res: Res,
    pub inv: u64,
    pub ret: u64,
}

impl Event {
    fn ts(&self) -> Option<u64> {
        match &self.op {
            OpKind::Insert(_, t) | OpKind::Delete(t) | OpKind::Cas(_, _, t) | OpKind::Incr(_, t) | OpKind::PatchAppend(_, t) => *t,
            _ => None,
        }
    }
    fn is_mod(&self) -> bool {
        !matches!(self.op, OpKind::Get)
    }
    /// Did this call change the key (as reported by its own result)?
    pub fn accepted(&self) -> bool {
        match (&self.op, &self.res) {
            (OpKind::Insert(..), Res::Bool(_)) => true,
            (OpKind::Delete(_), Res::Unit) => true,
            (OpKind::Cas(..), Res::Bool(true)) => true,
            (OpKind::Incr(..), Res::Int(_)) => true,
            (OpKind::InsertIfAbsent(_), Res::Bool(true)) => true,
            (OpKind::PatchAppend(..), Res::Unit) => true,
            _ => false,
        }
    }
}

/// Register state: value + timestamp (timestamp None = assigned automatically, unknown).
#[derive(Clone, Debug, PartialEq, Eq, Hash)]
pub struct St {
    pub v: Option<(Vec<u8>, Option<u64>)>,
}

fn json_append(doc: &[u8], x: u64) -> Option<Vec<u8>> {
    let patch = format!(r#"[{{"op":"add","path":"/l/-","value":{x}}}]"#);
    crate::model::apply_patch(doc, patch.as_bytes()).ok()
}

/// Sequential specification: result and next state of `op` applied in state `st`.
/// `explicit` regime compares timestamps; in the automatic regime a write is
/// accepted at its linearization point.
fn spec(st: &St, op: &OpKind) -> (Res, St) {
    let older = |cur: &Option<u64>, t: &Option<u64>| -> bool {
        match (cur, t) {
            (Some(c), Some(t)) => t <= c,
            _ => false,
        }
    };
    match op {
        OpKind::Get => match &st.v {
            None => (Res::NotFound, st.clone()),
            Some((v, _)) => (Res::Value(v.clone()), st.clone()),
        },
        OpKind::Insert(v, t) => match &st.v {
            None => (Res::Bool(true), St { v: Some((v.clone(), *t)) }),
            Some((_, cur)) => {
                if older(cur, t) {
                    (Res::Older, st.clone())
                } else {
                    (Res::Bool(false), St { v: Some((v.clone(), *t)) })
                }
            }
        },
        OpKind::Delete(t) => match &st.v {
            None => (Res::NotFound, st.clone()),
            Some((_, cur)) => {
                if older(cur, t) {
                    (Res::Older, st.clone())
                } else {
                    (Res::Unit, St { v: None })
                }
            }
        },
        OpKind::Cas(exp, new, t) => match &st.v {
            None => (Res::Bool(false), st.clone()),
            Some((v, cur)) => {
                if v != exp {
                    (Res::Bool(false), st.clone())
                } else if older(cur, t) {
                    (Res::Older, st.clone())
                } else {
                    (Res::Bool(true), St { v: Some((new.clone(), *t)) })
                }
            }
        },
        OpKind::Incr(d, t) => match &st.v {
            None => (Res::Int(*d), St { v: Some((d.to_le_bytes().to_vec(), *t)) }),
            Some((v, cur)) => {
                if older(cur, t) {
                    (Res::Older, st.clone())
                } else if v.len() != 8 {
                    (Res::InvalidOp, st.clone())
                } else {
                    let n = i64::from_le_bytes(v[..8].try_into().unwrap()).saturating_add(*d);
                    (Res::Int(n), St { v: Some((n.to_le_bytes().to_vec(), *t)) })
                }
            }
        },
        OpKind::InsertIfAbsent(v) => match &st.v {
            None => (Res::Bool(true), St { v: Some((v.clone(), None)) }),
            Some(_) => (Res::Bool(false), st.clone()),
        },
        OpKind::PatchAppend(x, t) => match &st.v {
            None => (Res::NotFound, st.clone()),
            Some((v, cur)) => {
                if older(cur, t) {
                    (Res::Older, st.clone())
                } else {
                    match json_append(v, *x) {
                        Some(n) => (Res::Unit, St { v: Some((n, *t)) }),
                        None => (Res::Other("JsonPatchError".into()), st.clone()),
                    }
                }
            }
        },
    }
}

pub enum Verdict {
    Ok { deviations_older: usize, deviations_cas: usize },
    Violation(String),
    Inconclusive,
}

/// May `e` (which answered OlderTimestamp / CAS false) be a conservative refusal?
fn deviation_allowed(events: &[Event], i: usize) -> bool {
    let e = &events[i];
    match (&e.op, &e.res) {
        (op, Res::Older) if !matches!(op, OpKind::Get | OpKind::InsertIfAbsent(_)) => {
            // an ACCEPTED write/delete with an equal-or-newer timestamp, invoked before this call returned
            events.iter().enumerate().any(|(j, w)| {
                j != i && w.is_mod() && w.accepted() && w.inv < e.ret
                    && match (w.ts(), e.ts()) {
                        (Some(a), Some(b)) => a >= b,
                        // automatic timestamps: only a genuinely concurrent accepted modification can be newer
                        _ => w.ret > e.inv,
                    }
            })
        }
        (OpKind::Cas(..), Res::Bool(false)) => {
            // the key was modified while the CAS ran
            events.iter().enumerate().any(|(j, w)| j != i && w.is_mod() && w.accepted() && w.inv < e.ret && w.ret > e.inv)
        }
        _ => false,
    }
}

/// Check one key's sub-history starting from `init`.
pub fn check_key(events: &[Event], init: St, budget: u64) -> Verdict {
    let n = events.len();
    assert!(n <= 63);
    let allowed: Vec<bool> = (0..n).map(|i| deviation_allowed(events, i)).collect();
    let mut memo: HashSet<(u64, St)> = HashSet::new();
    let mut nodes = 0u64;
    // iterative DFS
    struct Frame {
        done: u64,
        st: St,
        dev_older: usize,
        dev_cas: usize,
    }
    let mut stack = vec![Frame { done: 0, st: init, dev_older: 0, dev_cas: 0 }];
    let full: u64 = if n == 64 { u64::MAX } else { (1u64 << n) - 1 };
    while let Some(f) = stack.pop() {
        if f.done == full {
            return Verdict::Ok { deviations_older: f.dev_older, deviations_cas: f.dev_cas };
        }
        nodes += 1;
        if nodes > budget {
            return Verdict::Inconclusive;
        }
        if !memo.insert((f.done, f.st.clone())) {
            continue;
        }
        // minimal ops: not done, and no other not-done op returned before it was invoked
        let min_ret = (0..n).filter(|i| f.done & (1 << i) == 0).map(|i| events[i].ret).min().unwrap();
        for i in 0..n {
            if f.done & (1 << i) != 0 || events[i].inv > min_ret {
                continue;
            }
            let (r, next) = spec(&f.st, &events[i].op);
            if r == events[i].res {
                stack.push(Frame { done: f.done | (1 << i), st: next, dev_older: f.dev_older, dev_cas: f.dev_cas });
            }
            if allowed[i] && r != events[i].res {
                // conservative refusal: takes no effect
                let older = events[i].res == Res::Older;
                stack.push(Frame { done: f.done | (1 << i), st: f.st.clone(), dev_older: f.dev_older + older as usize, dev_cas: f.dev_cas + (!older) as usize });
            }
        }
    }
    // build a short explanation: which results can never be produced?
    let mut lines = Vec::new();
    for e in events {
        lines.push(format!("  t{} [{}..{}] {:?} -> {:?}", e.thread, e.inv, e.ret, brief_op(&e.op), brief_res(&e.res)));
    }
    Verdict::Violation(format!("no sequential last-writer-wins order consistent with real time explains this history (even with the permitted conservative refusals):\n{}", lines.join("\n")))
}

pub fn brief_op(op: &OpKind) -> String {
    let b = |v: &Vec<u8>| crate::values::describe(v);
    match op {
        OpKind::Get => "get".into(),
        OpKind::Insert(v, t) => format!("insert({}, ts={:?})", b(v), t),
        OpKind::Delete(t) => format!("delete(ts={t:?})"),
        OpKind::Cas(e, n, t) => format!("cas(exp={}, new={}, ts={:?})", b(e), b(n), t),
        OpKind::Incr(d, t) => format!("incr({d}, ts={t:?})"),
        OpKind::InsertIfAbsent(v) => format!("insert_if_absent({})", b(v)),
        OpKind::PatchAppend(x, t) => format!("json_patch(append {x}, ts={t:?})"),
    }
}

pub fn brief_res(r: &Res) -> String {
    match r {
        Res::Value(v) => format!("Ok({})", if v.len() == 8 { format!("i64 {}", i64::from_le_bytes(v[..8].try_into().unwrap())) } else if v.first() == Some(&b'{') { String::from_utf8_lossy(v).to_string() } else { crate::values::describe(v) }),
        other => format!("{other:?}"),
    }
}
