//! Opening / dumping stores the way every engine needs it.

use feoxdb::{FeoxError, FeoxStore};
use std::collections::BTreeMap;

use crate::indep;

#[derive(Clone, Debug)]
pub struct Cfg {
    pub persistent: bool,
    pub cache: bool,
    pub ttl: bool,
    /// on-disk format of the device (1, 2 or 3); only used when the file is created
    pub version: u32,
    pub max_memory: Option<usize>,
    /// total device blocks (including the 16 reserved ones)
    pub blocks: u64,
    /// skip io_uring (H2)
    pub sync_io: bool,
    /// restrict CPU visibility while opening => cpus/2 shards and workers (0 = leave alone)
    pub cpus: usize,
    pub allow_legacy: bool,
}

impl Cfg {
    pub fn memory() -> Self {
        Cfg { persistent: false, cache: false, ttl: false, version: 3, max_memory: None, blocks: 0, sync_io: false, cpus: 0, allow_legacy: false }
    }
    pub fn disk(blocks: u64) -> Self {
        Cfg { persistent: true, cache: true, ttl: false, version: 3, max_memory: None, blocks, sync_io: false, cpus: 0, allow_legacy: false }
    }
    pub fn label(&self) -> String {
        if self.persistent {
            format!("disk-v{}-{}-{}{}", self.version, if self.cache { "cache" } else { "nocache" }, if self.ttl { "ttl" } else { "nottl" }, if self.sync_io { "-sync" } else { "" })
        } else {
            format!("mem-{}", if self.ttl { "ttl" } else { "nottl" })
        }
    }
}

/// Run `f` with the calling thread's CPU affinity narrowed to `cpus` CPUs
/// (`num_cpus::get()` honours it, so the store gets cpus/2 shards and workers).
pub fn with_cpus<R>(cpus: usize, f: impl FnOnce() -> R) -> R {
    if cpus == 0 || cfg!(miri) {
        return f();
    }
    unsafe {
        let mut old: libc::cpu_set_t = std::mem::zeroed();
        libc::sched_getaffinity(0, std::mem::size_of::<libc::cpu_set_t>(), &mut old);
        let mut new: libc::cpu_set_t = std::mem::zeroed();
        let mut picked = 0;
        for cpu in 0..libc::CPU_SETSIZE as usize {
            if libc::CPU_ISSET(cpu, &old) {
                libc::CPU_SET(cpu, &mut new);
                picked += 1;
                if picked == cpus {
                    break;
                }
            }
        }
        libc::sched_setaffinity(0, std::mem::size_of::<libc::cpu_set_t>(), &new);
        let r = f();
        libc::sched_setaffinity(0, std::mem::size_of::<libc::cpu_set_t>(), &old);
        r
    }
}

/// Create the device file for `cfg` if it does not exist yet: an empty file for
/// v3 (the store initialises it), an M6-initialised image for v1/v2.
pub fn ensure_device(cfg: &Cfg, path: &str) {
    if std::path::Path::new(path).exists() {
        return;
    }
    if cfg.version >= 3 {
        std::fs::write(path, b"").expect("create device file");
    } else {
        std::fs::write(path, indep::fresh_image(cfg.version, cfg.blocks)).expect("create legacy device");
    }
}

pub fn open(cfg: &Cfg, path: Option<&str>) -> Result<FeoxStore, FeoxError> {
    let mut b = FeoxStore::builder().hash_bits(6).enable_ttl(cfg.ttl);
    b = match cfg.max_memory {
        Some(m) => b.max_memory(m),
        None => b.no_memory_limit(),
    };
    if cfg.persistent {
        let path = path.expect("persistent store needs a path");
        ensure_device(cfg, path);
        b = b
            .device_path(path.to_string())
            .file_size(cfg.blocks * indep::BLOCK as u64)
            .enable_caching(cfg.cache)
            .allow_ambiguous_legacy_recovery(cfg.allow_legacy);
        feoxdb::verif::set_thread_force_sync_io(cfg.sync_io || cfg!(miri));
        let r = with_cpus(cfg.cpus, || b.build());
        feoxdb::verif::set_thread_force_sync_io(false);
        r
    } else {
        b.build()
    }
}

#[derive(Clone, Debug, PartialEq, Eq)]
pub struct Dumped {
    pub ts: u64,
    pub expiry: u64,
    /// Ok(value) or the error `get` returned
    pub value: Result<Vec<u8>, String>,
    pub sector: u64,
}

/// Physical contents: every hash-table entry with its `get` result.
pub fn dump(store: &FeoxStore) -> BTreeMap<Vec<u8>, Dumped> {
    let snap = store.verif_snapshot();
    let mut out = BTreeMap::new();
    for e in snap.entries {
        let value = store.get(&e.key).map_err(|err| format!("{err:?}"));
        out.insert(e.key, Dumped { ts: e.timestamp, expiry: e.ttl_expiry, value, sector: e.sector });
    }
    out
}

pub fn err_name(e: &FeoxError) -> String {
    let s = format!("{e:?}");
    // strip payloads so error kinds compare stably
    match s.find(|c| c == '(' || c == '{' || c == ' ') {
        Some(i) => s[..i].to_string(),
        None => s,
    }
}

pub fn scratch_dir(tag: &str) -> String {
    let base = std::env::var("VERIF_TMP").unwrap_or_else(|_| {
        if std::path::Path::new("/dev/shm").is_dir() { "/dev/shm".into() } else { "/var/tmp".into() }
    });
    let dir = format!("{}/fvh-{}-{}", base, tag, std::process::id());
    std::fs::create_dir_all(&dir).expect("create scratch dir");
    dir
}

pub struct Scratch(pub String);
impl Drop for Scratch {
    fn drop(&mut self) {
        let _ = std::fs::remove_dir_all(&self.0);
    }
}

/// Fixed per-record memory overhead the store charges (measured once on a memory-only store).
pub fn record_overhead() -> usize {
    static OVERHEAD: std::sync::OnceLock<usize> = std::sync::OnceLock::new();
    *OVERHEAD.get_or_init(|| {
        let s = open(&Cfg::memory(), None).expect("memory store");
        let _ = s.insert(b"p", b"v");
        s.memory_usage() - 2
    })
}
