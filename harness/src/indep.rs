//! M6 — independent reader and writer of the FeOx device layout.
//!
//! Written from the documented layout; shares no code with feoxdb (own bitwise
//! CRC32C). Used as the oracle for format conformance, as a second opinion on
//! recovery, and to synthesise legacy / forged devices.

use std::collections::BTreeMap;

pub const BLOCK: usize = 4096;
pub const DATA_START: u64 = 16;
pub const META_PRIMARY: u64 = 0;
pub const META_BACKUP: u64 = 7;
pub const JOURNAL_START: u64 = 1;
pub const JOURNAL_SLOT_BLOCKS: u64 = 3;
pub const JOURNAL_SLOTS: usize = 2;
pub const JOURNAL_MAX: usize = 1024;
pub const RECORD_MAGIC: u16 = 0xABCD;
pub const MARKER_TAG: &[u8; 8] = b"\0DELETED";
pub const JOURNAL_MAGIC: &[u8; 8] = b"\0FEOXAJ1";
pub const MAX_KEY: usize = 100 * 1024;
pub const MAX_VALUE: usize = 4 * 1024 * 1024;

// ---------------------------------------------------------------- CRC32C

/// Bitwise CRC-32C (Castagnoli), continuation style: crc32c(crc32c(0,a),b) == crc32c(0,a||b).
pub fn crc32c(seed: u32, data: &[u8]) -> u32 {
    let mut crc = !seed;
    for &byte in data {
        crc ^= byte as u32;
        for _ in 0..8 {
            let mask = (crc & 1).wrapping_neg();
            crc = (crc >> 1) ^ (0x82F6_3B78 & mask);
        }
    }
    !crc
}

// Table-driven variant for the hot paths (same function, checked against the
// bitwise one in `selftest`).
fn table() -> &'static [u32; 256] {
    static TABLE: std::sync::OnceLock<[u32; 256]> = std::sync::OnceLock::new();
    TABLE.get_or_init(|| {
        let mut t = [0u32; 256];
        for (i, slot) in t.iter_mut().enumerate() {
            let mut c = i as u32;
            for _ in 0..8 {
                c = if c & 1 != 0 { (c >> 1) ^ 0x82F6_3B78 } else { c >> 1 };
            }
            *slot = c;
        }
        t
    })
}

pub fn crc32c_fast(seed: u32, data: &[u8]) -> u32 {
    let t = table();
    let mut crc = !seed;
    for &byte in data {
        crc = t[((crc ^ byte as u32) & 0xff) as usize] ^ (crc >> 8);
    }
    !crc
}

fn fold16(crc: u32) -> u16 {
    match ((crc >> 16) ^ (crc & 0xffff)) as u16 {
        0 => 1,
        t => t,
    }
}

// ---------------------------------------------------------------- metadata

#[derive(Clone, Debug, PartialEq, Eq)]
pub struct Meta {
    pub version: u32,
    pub total_records: u64,
    pub total_size: u64,
    pub device_size: u64,
    pub block_size: u32,
    pub fragmentation: u32,
    pub creation_time: u64,
    pub last_update_time: u64,
    /// `None` for legacy (reserved area without the FM3C checksum).
    pub generation: Option<u64>,
}

const META_LEN: usize = 136;
const META_RESERVED_END: usize = 132;

fn meta_checksum(b: &[u8]) -> u32 {
    // signature, version(4), the counters in field order, then reserved[12..]
    let mut c = crc32c_fast(0, &b[0..8]);
    c = crc32c_fast(c, &b[8..12]);
    c = crc32c_fast(c, &b[16..24]);
    c = crc32c_fast(c, &b[24..32]);
    c = crc32c_fast(c, &b[32..40]);
    c = crc32c_fast(c, &b[40..44]);
    c = crc32c_fast(c, &b[44..48]);
    c = crc32c_fast(c, &b[48..56]);
    c = crc32c_fast(c, &b[56..64]);
    crc32c_fast(c, &b[64 + 12..META_RESERVED_END])
}

pub fn decode_meta(block: &[u8]) -> Option<Meta> {
    if block.len() < META_LEN || &block[0..8] != b"FEOX_SIG" {
        return None;
    }
    let u32_at = |o: usize| u32::from_le_bytes(block[o..o + 4].try_into().unwrap());
    let u64_at = |o: usize| u64::from_le_bytes(block[o..o + 8].try_into().unwrap());
    let version = u32_at(8);
    let device_size = u64_at(32);
    let block_size = u32_at(40);
    if block_size != BLOCK as u32 || version == 0 || version > 3 {
        return None;
    }
    if device_size == 0 || device_size > (1u64 << 40) {
        return None;
    }
    let has_checksum = &block[64..68] == b"FM3C";
    if version >= 3 && !has_checksum {
        return None;
    }
    let generation = if has_checksum {
        let checksum = u32_at(68);
        let complement = u32_at(72);
        if complement != !checksum || checksum != meta_checksum(block) {
            return None;
        }
        Some(u64_at(76))
    } else {
        None
    };
    Some(Meta {
        version,
        total_records: u64_at(16),
        total_size: u64_at(24),
        device_size,
        block_size,
        fragmentation: u32_at(44),
        creation_time: u64_at(48),
        last_update_time: u64_at(56),
        generation,
    })
}

pub fn encode_meta(m: &Meta) -> Vec<u8> {
    let mut b = vec![0u8; BLOCK];
    b[0..8].copy_from_slice(b"FEOX_SIG");
    b[8..12].copy_from_slice(&m.version.to_le_bytes());
    b[16..24].copy_from_slice(&m.total_records.to_le_bytes());
    b[24..32].copy_from_slice(&m.total_size.to_le_bytes());
    b[32..40].copy_from_slice(&m.device_size.to_le_bytes());
    b[40..44].copy_from_slice(&m.block_size.to_le_bytes());
    b[44..48].copy_from_slice(&m.fragmentation.to_le_bytes());
    b[48..56].copy_from_slice(&m.creation_time.to_le_bytes());
    b[56..64].copy_from_slice(&m.last_update_time.to_le_bytes());
    if let Some(generation) = m.generation {
        b[64..68].copy_from_slice(b"FM3C");
        b[76..84].copy_from_slice(&generation.to_le_bytes());
        let c = meta_checksum(&b);
        b[68..72].copy_from_slice(&c.to_le_bytes());
        b[72..76].copy_from_slice(&(!c).to_le_bytes());
    }
    b
}

/// Newest valid metadata copy: (meta, which block it came from).
pub fn current_meta(image: &[u8]) -> Option<(Meta, u64)> {
    let p = decode_meta(&image[0..BLOCK]);
    let bstart = META_BACKUP as usize * BLOCK;
    let b = if image.len() >= bstart + BLOCK { decode_meta(&image[bstart..bstart + BLOCK]) } else { None };
    match (p, b) {
        (Some(p), Some(b)) => {
            if b.generation.unwrap_or(0) > p.generation.unwrap_or(0) {
                Some((b, META_BACKUP))
            } else {
                Some((p, META_PRIMARY))
            }
        }
        (Some(p), None) => Some((p, META_PRIMARY)),
        (None, Some(b)) => Some((b, META_BACKUP)),
        (None, None) => None,
    }
}

// ---------------------------------------------------------------- journal

#[derive(Clone, Debug, PartialEq, Eq)]
pub struct Journal {
    pub generation: u64,
    pub slot: usize,
    pub extents: Vec<(u64, u64)>,
}

fn journal_image_len(count: usize) -> usize {
    (40 + count * 8).div_ceil(BLOCK) * BLOCK
}

pub fn journal_checksum(d: &[u8]) -> u32 {
    let mut c = crc32c_fast(0, &d[..12]);
    c = crc32c_fast(c, &[0; 4]);
    c = crc32c_fast(c, &d[16..32]);
    c = crc32c_fast(c, &[0; 4]);
    crc32c_fast(c, &d[36..])
}

pub fn encode_journal(generation: u64, extents: &[(u64, u64)], version: u32) -> Vec<u8> {
    let count = extents.len();
    let len = if version == 1 { JOURNAL_SLOT_BLOCKS as usize * BLOCK } else { journal_image_len(count) };
    let mut d = vec![0u8; len];
    d[..8].copy_from_slice(JOURNAL_MAGIC);
    d[8..12].copy_from_slice(&version.to_le_bytes());
    d[16..24].copy_from_slice(&generation.to_le_bytes());
    let state: u32 = if count > 0 { 1 } else { 0 };
    d[24..28].copy_from_slice(&state.to_le_bytes());
    d[28..32].copy_from_slice(&(count as u32).to_le_bytes());
    for (i, &(s, n)) in extents.iter().enumerate() {
        let o = 40 + i * 8;
        d[o..o + 4].copy_from_slice(&(s as u32).to_le_bytes());
        d[o + 4..o + 8].copy_from_slice(&(n as u32).to_le_bytes());
    }
    let c = journal_checksum(&d);
    d[12..16].copy_from_slice(&c.to_le_bytes());
    d[32..36].copy_from_slice(&(!c).to_le_bytes());
    d
}

fn decode_journal_slot(d: &[u8], total_blocks: u64, slot: usize) -> Option<Journal> {
    if &d[..8] != JOURNAL_MAGIC {
        return None;
    }
    let u32_at = |o: usize| u32::from_le_bytes(d[o..o + 4].try_into().unwrap());
    let version = u32_at(8);
    if version != 1 && version != 2 {
        return None;
    }
    let generation = u64::from_le_bytes(d[16..24].try_into().unwrap());
    let state = u32_at(24);
    let count = u32_at(28) as usize;
    if generation == 0 || count > JOURNAL_MAX || state > 1 || (state == 0 && count != 0) || (state == 1 && count == 0) {
        return None;
    }
    let clen = if version == 1 { d.len() } else { journal_image_len(count) };
    let checksum = u32_at(12);
    let complement = u32_at(32);
    if complement != !checksum || journal_checksum(&d[..clen]) != checksum {
        return None;
    }
    let mut extents = Vec::new();
    for i in 0..count {
        let o = 40 + i * 8;
        let s = u32_at(o) as u64;
        let n = u32_at(o + 4) as u64;
        if s < DATA_START || n == 0 || s + n > total_blocks {
            return None;
        }
        extents.push((s, n));
    }
    let mut sorted = extents.clone();
    sorted.sort();
    for w in sorted.windows(2) {
        if w[0].0 + w[0].1 > w[1].0 {
            return None;
        }
    }
    Some(Journal { generation, slot, extents })
}

/// Newest valid slot; `Ok(None)` means "no journal ever written" (a zero slot
/// exists and no valid one); `Err` = unusable journal area.
pub fn decode_journal(image: &[u8]) -> Result<Option<Journal>, String> {
    let total_blocks = (image.len() / BLOCK) as u64;
    let mut valid: Vec<Journal> = Vec::new();
    let mut zero = false;
    for slot in 0..JOURNAL_SLOTS {
        let start = (JOURNAL_START as usize + slot * JOURNAL_SLOT_BLOCKS as usize) * BLOCK;
        let d = &image[start..start + JOURNAL_SLOT_BLOCKS as usize * BLOCK];
        if d.iter().all(|b| *b == 0) {
            zero = true;
        } else if let Some(j) = decode_journal_slot(d, total_blocks, slot) {
            valid.push(j);
        }
    }
    if let Some(j) = valid.into_iter().max_by_key(|j| j.generation) {
        return Ok(Some(j));
    }
    if zero {
        return Ok(None);
    }
    Err("both journal slots damaged".into())
}

// ---------------------------------------------------------------- records

#[derive(Clone, Debug, PartialEq, Eq)]
pub struct DiskRecord {
    pub key: Vec<u8>,
    pub value: Vec<u8>,
    pub timestamp: u64,
    pub expiry: u64,
    pub sector: u64,
    pub blocks: u64,
}

pub fn header_len(version: u32, key_len: usize) -> usize {
    4 + 2 + key_len + 8 + 8 + if version >= 2 { 8 } else { 0 }
}

pub fn record_blocks(version: u32, key_len: usize, value_len: usize) -> u64 {
    (header_len(version, key_len) + value_len).div_ceil(BLOCK) as u64
}

pub fn record_token(sector: u64, extent: &[u8]) -> u16 {
    let mut c = crc32c_fast(0, &sector.to_le_bytes());
    c = crc32c_fast(c, &extent[..2]);
    c = crc32c_fast(c, &[0, 0]);
    c = crc32c_fast(c, &extent[4..]);
    fold16(c)
}

/// The 16-bit fold of the record checksum BEFORE the "never zero" rule is applied (0 here means the documented
/// token is 1).
pub fn record_token_raw_fold(sector: u64, extent: &[u8]) -> u16 {
    let mut c = crc32c_fast(0, &sector.to_le_bytes());
    c = crc32c_fast(c, &extent[..2]);
    c = crc32c_fast(c, &[0, 0]);
    c = crc32c_fast(c, &extent[4..]);
    ((c >> 16) ^ (c & 0xffff)) as u16
}

/// Serialise a record as it must appear on a device of `version`, landing at `sector`.
pub fn encode_record(version: u32, key: &[u8], value: &[u8], ts: u64, expiry: u64, sector: u64) -> Vec<u8> {
    let mut d = Vec::new();
    d.extend_from_slice(&RECORD_MAGIC.to_le_bytes());
    d.extend_from_slice(&0u16.to_le_bytes());
    d.extend_from_slice(&(key.len() as u16).to_le_bytes());
    d.extend_from_slice(key);
    d.extend_from_slice(&(value.len() as u64).to_le_bytes());
    d.extend_from_slice(&ts.to_le_bytes());
    if version >= 2 {
        d.extend_from_slice(&expiry.to_le_bytes());
    }
    d.extend_from_slice(value);
    let padded = d.len().div_ceil(BLOCK) * BLOCK;
    d.resize(padded, 0);
    if version >= 3 {
        let t = record_token(sector, &d);
        d[2..4].copy_from_slice(&t.to_le_bytes());
    }
    d
}

pub fn marker_token(sector: u64, marker: &[u8]) -> u16 {
    let mut protected = [0u8; 17];
    protected[..16].copy_from_slice(&marker[..16]);
    protected[16] = marker[18];
    let c = crc32c_fast(crc32c_fast(0, &sector.to_le_bytes()), &protected);
    fold16(c)
}

/// One retirement-marker block (rest zero).
pub fn encode_marker(sector: u64, remaining: u64, state: u8) -> Vec<u8> {
    let mut b = vec![0u8; BLOCK];
    b[..8].copy_from_slice(MARKER_TAG);
    b[8..16].copy_from_slice(&remaining.to_le_bytes());
    b[18] = state;
    let t = marker_token(sector, &b);
    b[16..18].copy_from_slice(&t.to_le_bytes());
    b
}

#[derive(Clone, Debug, PartialEq, Eq)]
pub enum BlockKind {
    /// valid, complete retirement marker with remaining count
    Marker { remaining: u64, complete: bool },
    /// tag + zeros (legacy ambiguous)
    LegacyMarker,
    /// valid record head
    Head { key: Vec<u8>, value_len: usize, ts: u64, expiry: u64, blocks: u64, token: u16 },
    /// starts with the record magic / marker tag but fails a check; the flag says
    /// whether the real store treats it as fatal even on a v1/v2 device
    Bad(String, bool),
    Other,
}

pub fn classify_block(version: u32, sector: u64, image: &[u8]) -> BlockKind {
    let total_blocks = (image.len() / BLOCK) as u64;
    let b = &image[sector as usize * BLOCK..(sector as usize + 1) * BLOCK];
    if &b[..8] == MARKER_TAG {
        if version < 3 && b[8..].iter().all(|x| *x == 0) {
            return BlockKind::LegacyMarker;
        }
        let tok = u16::from_le_bytes([b[16], b[17]]);
        if tok != marker_token(sector, b) {
            return BlockKind::Bad("marker token".into(), true);
        }
        let remaining = u64::from_le_bytes(b[8..16].try_into().unwrap());
        if remaining == 0 || sector.checked_add(remaining).map_or(true, |e| e > total_blocks) {
            return BlockKind::Bad("marker extent".into(), true);
        }
        return BlockKind::Marker { remaining, complete: b[18] == 1 };
    }
    if u16::from_le_bytes([b[0], b[1]]) != RECORD_MAGIC {
        return BlockKind::Other;
    }
    let key_len = u16::from_le_bytes([b[4], b[5]]) as usize;
    if key_len == 0 || header_len(version, key_len) > BLOCK {
        return BlockKind::Bad("key_len".into(), false);
    }
    let token = u16::from_le_bytes([b[2], b[3]]);
    if (version < 3 && token != 0) || (version >= 3 && token == 0) {
        return BlockKind::Bad("token zero-ness".into(), true);
    }
    let mut o = 6;
    let key = b[o..o + key_len].to_vec();
    o += key_len;
    let value_len = u64::from_le_bytes(b[o..o + 8].try_into().unwrap());
    o += 8;
    let ts = u64::from_le_bytes(b[o..o + 8].try_into().unwrap());
    o += 8;
    let expiry = if version >= 2 { u64::from_le_bytes(b[o..o + 8].try_into().unwrap()) } else { 0 };
    if value_len == 0 || value_len > MAX_VALUE as u64 {
        return BlockKind::Bad("value_len".into(), false);
    }
    let blocks = record_blocks(version, key_len, value_len as usize);
    if sector + blocks > total_blocks {
        return BlockKind::Bad("extent out of device".into(), false);
    }
    if version >= 3 {
        let ext = &image[sector as usize * BLOCK..(sector + blocks) as usize * BLOCK];
        if record_token(sector, ext) != token {
            return BlockKind::Bad("record token".into(), true);
        }
    }
    BlockKind::Head { key, value_len: value_len as usize, ts, expiry, blocks, token }
}

#[derive(Clone, Debug, Default)]
pub struct Scan {
    pub version: u32,
    pub meta: Option<Meta>,
    pub meta_block: u64,
    pub journal: Option<Journal>,
    /// winners by key
    pub records: BTreeMap<Vec<u8>, DiskRecord>,
    /// every valid head found (including losers), in scan order
    pub heads: Vec<DiskRecord>,
    /// (sector, remaining, complete) of every marker head found
    pub markers: Vec<(u64, u64, bool)>,
    pub legacy_markers: u64,
    /// blocks of the data area not covered by a winner's extent
    pub free_blocks: u64,
}

/// Independent recovery: what a reader of the documented layout finds.
/// `ttl_now`: `Some(now)` drops winners with `0 < expiry < now` (TTL enabled).
/// `allow_legacy`: accept ambiguous legacy markers (skip one block).
pub fn scan(image: &[u8], ttl_now: Option<u64>, allow_legacy: bool) -> Result<Scan, String> {
    if image.len() % BLOCK != 0 || image.len() <= DATA_START as usize * BLOCK {
        return Err("bad size".into());
    }
    if image.iter().all(|b| *b == 0) {
        // never-initialised device: an empty store
        return Ok(Scan { version: 3, free_blocks: (image.len() / BLOCK) as u64 - DATA_START, ..Default::default() });
    }
    let (meta, meta_block) = current_meta(image).ok_or("no valid metadata")?;
    let version = meta.version;
    let total_blocks = (image.len() / BLOCK) as u64;
    let journal = decode_journal(image)?;
    let mut masked: Vec<(u64, u64)> = journal.as_ref().map(|j| j.extents.clone()).unwrap_or_default();
    masked.sort();
    let mut out = Scan { version, meta: Some(meta), meta_block, journal, ..Default::default() };
    let mut sector = DATA_START;
    'scan: while sector < total_blocks {
        for &(s, n) in &masked {
            if sector >= s && sector < s + n {
                sector = s + n;
                continue 'scan;
            }
        }
        match classify_block(version, sector, image) {
            BlockKind::Marker { remaining, complete } => {
                out.markers.push((sector, remaining, complete));
                sector += remaining;
            }
            BlockKind::LegacyMarker => {
                if !allow_legacy {
                    return Err("ambiguous legacy marker".into());
                }
                out.legacy_markers += 1;
                sector += 1;
            }
            BlockKind::Head { key, value_len, ts, expiry, blocks, .. } => {
                // an extent running into a journal-masked range is damaged
                let hl = header_len(version, key.len());
                let ext = &image[sector as usize * BLOCK..(sector + blocks) as usize * BLOCK];
                let rec = DiskRecord {
                    key: key.clone(),
                    value: ext[hl..hl + value_len].to_vec(),
                    timestamp: ts,
                    expiry,
                    sector,
                    blocks,
                };
                out.heads.push(rec.clone());
                let replace = match out.records.get(&key) {
                    Some(existing) => existing.timestamp <= ts,
                    None => true,
                };
                if replace {
                    out.records.insert(key, rec);
                }
                sector += blocks;
            }
            BlockKind::Bad(why, fatal) => {
                if version >= 3 || fatal {
                    return Err(format!("corrupted block {sector}: {why}"));
                }
                sector += 1;
            }
            BlockKind::Other => sector += 1,
        }
    }
    if let Some(now) = ttl_now {
        out.records.retain(|_, r| !(r.expiry > 0 && now > r.expiry));
    }
    let used: u64 = out.records.values().map(|r| r.blocks).sum();
    out.free_blocks = total_blocks - DATA_START - used;
    Ok(out)
}

/// A fresh, empty device image of `version` (legacy versions get a checksum-less metadata block).
pub fn fresh_image(version: u32, blocks: u64) -> Vec<u8> {
    let mut image = vec![0u8; blocks as usize * BLOCK];
    let meta = Meta {
        version,
        total_records: 0,
        total_size: 0,
        device_size: blocks * BLOCK as u64,
        block_size: BLOCK as u32,
        fragmentation: 0,
        creation_time: 1_700_000_000,
        last_update_time: 1_700_000_000,
        generation: if version >= 3 { Some(1) } else { None },
    };
    let b = encode_meta(&meta);
    image[..BLOCK].copy_from_slice(&b);
    if version >= 3 {
        let s = META_BACKUP as usize * BLOCK;
        image[s..s + BLOCK].copy_from_slice(&b);
    }
    image
}

pub fn selftest() -> Result<(), String> {
    // CRC-32C check value and table/bitwise agreement
    if crc32c(0, b"123456789") != 0xE306_9283 {
        return Err("crc32c check value".into());
    }
    let mut data = Vec::new();
    for i in 0..1000u32 {
        data.push((i.wrapping_mul(2654435761) >> 13) as u8);
    }
    if crc32c(0, &data) != crc32c_fast(0, &data) {
        return Err("crc table mismatch".into());
    }
    if crc32c_fast(crc32c_fast(0, &data[..300]), &data[300..]) != crc32c_fast(0, &data) {
        return Err("crc continuation".into());
    }
    // round trips
    let img = fresh_image(3, 32);
    let s = scan(&img, None, false)?;
    if s.records.len() != 0 || s.version != 3 {
        return Err("fresh scan".into());
    }
    let mut img = fresh_image(3, 32);
    let r = encode_record(3, b"k", &vec![7u8; 5000], 9, 0, 17);
    img[17 * BLOCK..17 * BLOCK + r.len()].copy_from_slice(&r);
    let m = encode_marker(20, 2, 1);
    img[20 * BLOCK..21 * BLOCK].copy_from_slice(&m);
    let m2 = encode_marker(21, 1, 1);
    img[21 * BLOCK..22 * BLOCK].copy_from_slice(&m2);
    let s = scan(&img, None, false)?;
    if s.records.len() != 1 || s.markers != vec![(20, 2, true)] {
        return Err(format!("roundtrip scan {:?}", s.markers));
    }
    Ok(())
}
