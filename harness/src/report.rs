//! Engine result: what was run, what was observed, what was violated.

use serde_json::{json, Map, Value};
use std::collections::{BTreeMap, HashSet};

#[derive(Clone, Debug)]
pub struct Violation {
    /// Stable signature used to match known findings.
    pub sig: String,
    pub msg: String,
    pub replay: Value,
}

#[derive(Debug, Default)]
pub struct Report {
    pub engine: String,
    pub evaluations: u64,
    pub nontrivial: HashSet<u64>,
    pub rule: String,
    pub samples: Vec<Value>,
    pub violations: Vec<Violation>,
    pub inconclusive: Vec<String>,
    pub counters: BTreeMap<String, u64>,
    pub notes: Vec<String>,
    pub exhaustive: bool,
}

impl Report {
    pub fn new(engine: &str, rule: &str) -> Self {
        Report { engine: engine.to_string(), rule: rule.to_string(), ..Default::default() }
    }

    pub fn count(&mut self, name: &str, n: u64) {
        *self.counters.entry(name.to_string()).or_insert(0) += n;
    }

    pub fn max(&mut self, name: &str, n: u64) {
        let e = self.counters.entry(name.to_string()).or_insert(0);
        if n > *e {
            *e = n;
        }
    }

    pub fn sample(&mut self, v: Value) {
        if self.samples.len() < 4 {
            self.samples.push(v);
        }
    }

    pub fn violation(&mut self, sig: impl Into<String>, msg: impl Into<String>, replay: Value) {
        let sig = sig.into();
        // keep at most 3 witnesses per signature so one recurring finding cannot crowd out others
        if self.violations.len() < 50 && self.violations.iter().filter(|v| v.sig == sig).count() < 3 {
            self.violations.push(Violation { sig, msg: msg.into(), replay });
        }
        self.count("violations_total", 1);
    }

    pub fn merge(&mut self, other: Report) {
        self.evaluations += other.evaluations;
        self.nontrivial.extend(other.nontrivial);
        for s in other.samples {
            self.sample(s);
        }
        for v in other.violations {
            if self.violations.len() < 50 && self.violations.iter().filter(|x| x.sig == v.sig).count() < 3 {
                self.violations.push(v);
            }
        }
        self.inconclusive.extend(other.inconclusive);
        for (k, v) in other.counters {
            if k.starts_with("max_") {
                self.max(&k, v);
            } else {
                self.count(&k, v);
            }
        }
        self.notes.extend(other.notes);
    }

    pub fn to_json(&self) -> Value {
        let mut counters = Map::new();
        for (k, v) in &self.counters {
            counters.insert(k.clone(), json!(v));
        }
        json!({
            "engine": self.engine,
            "evaluations": self.evaluations,
            "distinct_nontrivial": self.nontrivial.len(),
            "rule": self.rule,
            "samples": self.samples,
            "violations": self.violations.iter().map(|v| json!({"sig": v.sig, "msg": v.msg, "replay": v.replay})).collect::<Vec<_>>(),
            "inconclusive": self.inconclusive,
            "counters": counters,
            "notes": self.notes,
            "exhaustive": self.exhaustive,
        })
    }
}

pub fn hex(bytes: &[u8]) -> String {
    if bytes.len() <= 48 && bytes.iter().all(|b| b.is_ascii_graphic()) {
        return format!("'{}'", String::from_utf8_lossy(bytes));
    }
    let mut s = String::with_capacity(bytes.len().min(40) * 2 + 16);
    for b in bytes.iter().take(40) {
        s.push_str(&format!("{b:02x}"));
    }
    if bytes.len() > 40 {
        s.push_str(&format!("..(len {})", bytes.len()));
    }
    s
}
