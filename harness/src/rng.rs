//! Small deterministic PRNG (SplitMix64 seeding xoshiro256**). Every random
//! choice in the harness comes from one of these, seeded from VERIF_SEED.

#[derive(Clone, Debug)]
pub struct Rng {
    s: [u64; 4],
}

fn splitmix(x: &mut u64) -> u64 {
    *x = x.wrapping_add(0x9E37_79B9_7F4A_7C15);
    let mut z = *x;
    z = (z ^ (z >> 30)).wrapping_mul(0xBF58_476D_1CE4_E5B9);
    z = (z ^ (z >> 27)).wrapping_mul(0x94D0_49BB_1331_11EB);
    z ^ (z >> 31)
}

impl Rng {
    pub fn new(seed: u64) -> Self {
        let mut x = seed ^ 0xD1B5_4A32_D192_ED03;
        let s = [splitmix(&mut x), splitmix(&mut x), splitmix(&mut x), splitmix(&mut x)];
        Rng { s }
    }

    /// Independent stream derived from this seed and a label.
    pub fn derive(seed: u64, a: u64, b: u64) -> Self {
        let mut x = seed;
        let h = splitmix(&mut x) ^ a.wrapping_mul(0x9E37_79B9_7F4A_7C15) ^ b.rotate_left(32);
        Rng::new(h)
    }

    pub fn next_u64(&mut self) -> u64 {
        let result = self.s[1].wrapping_mul(5).rotate_left(7).wrapping_mul(9);
        let t = self.s[1] << 17;
        self.s[2] ^= self.s[0];
        self.s[3] ^= self.s[1];
        self.s[1] ^= self.s[2];
        self.s[0] ^= self.s[3];
        self.s[2] ^= t;
        self.s[3] = self.s[3].rotate_left(45);
        result
    }

    /// Uniform in [0, n); n must be > 0.
    pub fn below(&mut self, n: u64) -> u64 {
        debug_assert!(n > 0);
        ((self.next_u64() as u128 * n as u128) >> 64) as u64
    }

    pub fn usize_below(&mut self, n: usize) -> usize {
        self.below(n as u64) as usize
    }

    /// Uniform in [lo, hi] inclusive.
    pub fn range(&mut self, lo: u64, hi: u64) -> u64 {
        debug_assert!(lo <= hi);
        if lo == 0 && hi == u64::MAX {
            return self.next_u64();
        }
        lo + self.below(hi - lo + 1)
    }

    pub fn chance(&mut self, num: u64, den: u64) -> bool {
        self.below(den) < num
    }

    pub fn pick<'a, T>(&mut self, items: &'a [T]) -> &'a T {
        &items[self.usize_below(items.len())]
    }

    pub fn fill(&mut self, buf: &mut [u8]) {
        let mut chunks = buf.chunks_exact_mut(8);
        for chunk in &mut chunks {
            chunk.copy_from_slice(&self.next_u64().to_le_bytes());
        }
        let rest = chunks.into_remainder();
        if !rest.is_empty() {
            let bytes = self.next_u64().to_le_bytes();
            let n = rest.len();
            rest.copy_from_slice(&bytes[..n]);
        }
    }

    pub fn bytes(&mut self, n: usize) -> Vec<u8> {
        let mut v = vec![0u8; n];
        self.fill(&mut v);
        v
    }

    pub fn shuffle<T>(&mut self, items: &mut [T]) {
        for i in (1..items.len()).rev() {
            let j = self.usize_below(i + 1);
            items.swap(i, j);
        }
    }
}

/// FNV-1a 64 for cheap distinct-case hashing.
pub fn fnv(data: &[u8]) -> u64 {
    let mut h: u64 = 0xcbf2_9ce4_8422_2325;
    for &b in data {
        h ^= b as u64;
        h = h.wrapping_mul(0x0000_0100_0000_01B3);
    }
    h
}

pub fn fnv_mix(h: u64, x: u64) -> u64 {
    let mut out: u64 = 0xcbf2_9ce4_8422_2325;
    for b in h.to_le_bytes().into_iter().chain(x.to_le_bytes()) {
        out ^= b as u64;
        out = out.wrapping_mul(0x0000_0100_0000_01B3);
    }
    out
}
