//! M5 — device trace -> crash images.
//!
//! Crash model: the device applies writes in issue order; a completed fsync makes
//! everything issued before it durable; writes issued since the last completed
//! fsync may each be lost independently, and one of them may be torn at 512-byte
//! sector granularity.

use crate::mon::Ev;
use crate::rng::Rng;

pub const SECTOR: usize = 512;

#[derive(Clone, Debug, PartialEq, Eq, Hash)]
pub struct Recipe {
    /// number of trace events that happened before the crash
    pub cut: usize,
    /// indices (into the trace) of volatile writes that reached the device
    pub keep: Vec<usize>,
    /// one kept write that is torn: (trace index, bitmask of 512-byte sectors that made it)
    pub tear: Option<(usize, u64)>,
}

/// Index of the first event that is NOT covered by a completed fsync before `cut`.
pub fn durable_end(events: &[Ev], cut: usize) -> usize {
    let mut end = 0;
    let mut last_fb = None;
    for (i, ev) in events.iter().enumerate().take(cut) {
        match ev {
            Ev::Fb { .. } => last_fb = Some(i),
            Ev::Fe { ok: true } => {
                if let Some(fb) = last_fb {
                    end = fb;
                }
            }
            _ => {}
        }
    }
    end
}

/// Trace indices of applied writes that are still volatile at `cut`.
pub fn volatile(events: &[Ev], cut: usize) -> Vec<usize> {
    let from = durable_end(events, cut);
    (from..cut).filter(|&i| matches!(&events[i], Ev::W { applied: true, .. })).collect()
}

pub fn build(base: &[u8], events: &[Ev], recipe: &Recipe) -> Vec<u8> {
    let mut image = base.to_vec();
    let durable = durable_end(events, recipe.cut);
    for (i, ev) in events.iter().enumerate().take(recipe.cut) {
        let Ev::W { off, data, applied: true, .. } = ev else { continue };
        let off = *off as usize;
        if off + data.len() > image.len() {
            continue;
        }
        if i < durable || recipe.keep.contains(&i) {
            match recipe.tear {
                Some((ti, mask)) if ti == i => {
                    for (s, chunk) in data.chunks(SECTOR).enumerate() {
                        if s < 64 && mask & (1u64 << s) != 0 {
                            let o = off + s * SECTOR;
                            image[o..o + chunk.len()].copy_from_slice(chunk);
                        }
                    }
                }
                _ => image[off..off + data.len()].copy_from_slice(data),
            }
        }
    }
    image
}

/// Recipes for one cut: subsets of the volatile writes (all of them when few),
/// plus sector-torn variants of the most recent ones.
/// Trace monitor for the two-slot allocation journal. From the store's point of view a journal write has
/// succeeded when neither the write nor the fsync that follows it was reported as failed. The discipline that
/// makes a torn journal write harmless: generations strictly increase along the successful writes, successive
/// successful writes alternate between the two slots, and no attempt (successful or not) ever targets the slot
/// holding the last successful image - tearing it would leave only an older image to fall back on.
/// `failed_calls` = I/O call indices at which a failure was injected.
pub fn journal_discipline(events: &[Ev], failed_calls: &[u32]) -> Result<u64, String> {
    let u64_at = |d: &[u8], o: usize| d.get(o..o + 8).map(|b| u64::from_le_bytes(b.try_into().unwrap())).unwrap_or(0);
    let mut last_ok: Option<(u64, u64, usize)> = None; // (slot, generation, event index)
    let mut checked = 0u64;
    for (i, ev) in events.iter().enumerate() {
        let Ev::W { off, data, applied, call, .. } = ev else { continue };
        if crate::mon::classify_write(*off, data) != crate::mon::IoClass::JournalWrite || data.len() < 40 || &data[..8] != b"\0FEOXAJ1" {
            continue;
        }
        let block = off / 4096;
        let slot = (block - 1) / 3;
        let generation = u64_at(data, 16);
        if let Some((pslot, pgen, pi)) = last_ok {
            checked += 1;
            if slot == pslot {
                return Err(format!("journal write #{i} (generation {generation}) targets slot {slot}, which holds the last successfully written journal image (generation {pgen}, event #{pi}): a torn write would leave only an older image"));
            }
            if generation <= pgen {
                return Err(format!("journal write #{i} carries generation {generation}, not above generation {pgen} of the last successfully written image (event #{pi})"));
            }
        }
        // did the store see this write succeed? the write itself and the fsync right after it
        let write_failed = !*applied || failed_calls.contains(call);
        let fsync_failed = events[i + 1..].iter().find_map(|e| match e {
            Ev::Fb { call } => Some(Some(failed_calls.contains(call))),
            Ev::W { .. } => Some(None), // another write before any fsync: not the journal step's pattern - outcome unknown
            _ => None,
        });
        match (write_failed, fsync_failed) {
            (false, Some(Some(false))) => last_ok = Some((slot, generation, i)),
            (true, _) | (false, Some(Some(true))) => {} // the store saw a failure: the previous successful image stays the reference
            _ => last_ok = None, // unknown outcome (end of trace, unusual pattern): drop the reference rather than guess
        }
    }
    Ok(checked)
}

/// The device under the strict fsync model: a write becomes durable only through a *successful* fsync that
/// begins after it; a failed fsync may have dropped the dirty pages it covered (Linux marks them clean and
/// reports the error once), so those writes are lost for good unless the store writes them again - a later
/// successful fsync does not bring them back.
pub fn build_strict(base: &[u8], events: &[Ev], cut: usize) -> Vec<u8> {
    let mut image = base.to_vec();
    let mut pending: Vec<usize> = Vec::new();
    let mut mark = 0usize;
    for (i, ev) in events.iter().enumerate().take(cut) {
        match ev {
            Ev::W { applied: true, .. } => pending.push(i),
            Ev::W { .. } => {}
            Ev::Fb { .. } => mark = pending.len(),
            Ev::Fe { ok } => {
                let covered: Vec<usize> = pending.drain(..mark.min(pending.len())).collect();
                mark = 0;
                if *ok {
                    for w in covered {
                        if let Ev::W { off, data, .. } = &events[w] {
                            let off = *off as usize;
                            if off + data.len() <= image.len() {
                                image[off..off + data.len()].copy_from_slice(data);
                            }
                        }
                    }
                }
            }
        }
    }
    image
}

pub fn recipes_for_cut(events: &[Ev], cut: usize, rng: &mut Rng, max_subsets: usize, tears: usize) -> Vec<Recipe> {
    let v = volatile(events, cut);
    let mut out = Vec::new();
    let mut push = |keep: Vec<usize>, tear: Option<(usize, u64)>| {
        let r = Recipe { cut, keep, tear };
        if !out.contains(&r) {
            out.push(r);
        }
    };
    if v.len() <= 4 {
        for mask in 0..(1u32 << v.len()) {
            let keep: Vec<usize> = v.iter().enumerate().filter(|(j, _)| mask & (1 << j) != 0).map(|(_, i)| *i).collect();
            push(keep, None);
        }
    } else {
        push(vec![], None);
        push(v.clone(), None);
        for j in 0..v.len() {
            push(vec![v[j]], None);
            let mut all = v.clone();
            all.remove(j);
            push(all, None);
        }
        for _ in 0..max_subsets {
            let keep: Vec<usize> = v.iter().filter(|_| rng.chance(1, 2)).cloned().collect();
            push(keep, None);
        }
    }
    // tearing: the newest volatile write (the one in flight), and one random other
    if !v.is_empty() && tears > 0 {
        let mut targets = vec![*v.last().unwrap()];
        if v.len() > 1 {
            targets.push(v[rng.usize_below(v.len() - 1)]);
        }
        for t in targets {
            let Ev::W { data, .. } = &events[t] else { continue };
            let sectors = data.len().div_ceil(SECTOR).min(64);
            if sectors < 2 {
                continue;
            }
            let full = if sectors == 64 { u64::MAX } else { (1u64 << sectors) - 1 };
            let mut masks = vec![
                1u64,                                  // only the first sector
                full & !1,                             // everything but the first sector
                (1u64 << (sectors / 2)) - 1,           // first half
                full & !((1u64 << (sectors / 2)) - 1), // second half
                full & !(1u64 << (sectors - 1)),       // all but the last
            ];
            for _ in 0..tears {
                masks.push(rng.next_u64() & full);
            }
            for mask in masks {
                if mask == full || mask == 0 {
                    continue;
                }
                // others: either all kept or a random subset
                let others: Vec<usize> = if rng.chance(1, 2) { v.clone() } else { v.iter().filter(|i| **i == t || rng.chance(1, 2)).cloned().collect() };
                let mut keep = others;
                if !keep.contains(&t) {
                    keep.push(t);
                    keep.sort();
                }
                push(keep, Some((t, mask)));
            }
        }
    }
    out
}

pub fn describe(events: &[Ev], r: &Recipe) -> serde_json::Value {
    let v = volatile(events, r.cut);
    let w = |i: usize| match &events[i] {
        Ev::W { off, data, uring, .. } => format!("#{} {} block {}+{}{}", i, crate::mon::classify_write(*off, data).name(), off / 4096, data.len().div_ceil(4096), if *uring { " (uring)" } else { "" }),
        _ => format!("#{i}"),
    };
    serde_json::json!({
        "cut_after_events": r.cut,
        "durable_prefix_events": durable_end(events, r.cut),
        "volatile_writes": v.iter().map(|i| w(*i)).collect::<Vec<_>>(),
        "kept": r.keep.iter().map(|i| w(*i)).collect::<Vec<_>>(),
        "torn": r.tear.map(|(i, m)| format!("{} sectors mask {:#b}", w(i), m)),
    })
}

/// Human-readable digest of the events in `[from, to)`: what each device write carried.
pub fn digest(events: &[Ev], from: usize, to: usize) -> Vec<String> {
    let u64_at = |d: &[u8], o: usize| d.get(o..o + 8).map(|b| u64::from_le_bytes(b.try_into().unwrap())).unwrap_or(0);
    let u32_at = |d: &[u8], o: usize| d.get(o..o + 4).map(|b| u32::from_le_bytes(b.try_into().unwrap())).unwrap_or(0);
    let mut out = Vec::new();
    for (i, ev) in events.iter().enumerate().take(to.min(events.len())).skip(from) {
        out.push(match ev {
            Ev::W { off, data, uring, applied, .. } => {
                let block = off / 4096;
                let blocks = data.len().div_ceil(4096);
                let what = match crate::mon::classify_write(*off, data) {
                    crate::mon::IoClass::MetaWrite => "metadata".to_string(),
                    crate::mon::IoClass::JournalWrite => {
                        let n = u32_at(data, 28) as usize;
                        let ext: Vec<(u32, u32)> = (0..n.min(8)).map(|j| (u32_at(data, 40 + j * 8), u32_at(data, 44 + j * 8))).collect();
                        format!("journal v{} gen {} state {} count {} extents {:?}", u32_at(data, 8), u64_at(data, 16), u32_at(data, 24), n, ext)
                    }
                    crate::mon::IoClass::MarkerWrite => {
                        let heads: Vec<(u64, u64, u8)> = (0..blocks.min(4)).map(|b| (block + b as u64, u64_at(data, b * 4096 + 8), data.get(b * 4096 + 18).copied().unwrap_or(0))).collect();
                        format!("markers (block, remaining, state) {:?}", heads)
                    }
                    crate::mon::IoClass::DataWrite => {
                        let klen = data.get(4..6).map(|b| u16::from_le_bytes(b.try_into().unwrap()) as usize).unwrap_or(0);
                        let key = data.get(6..6 + klen.min(64)).map(|k| String::from_utf8_lossy(k).to_string()).unwrap_or_default();
                        format!("record key '{}' value_len {} ts {}", key, u64_at(data, 6 + klen), u64_at(data, 14 + klen))
                    }
                    crate::mon::IoClass::Fsync => String::new(),
                };
                format!("#{i} write block {block}+{blocks}{}{}: {what}", if *uring { " (uring)" } else { "" }, if *applied { "" } else { " NOT APPLIED" })
            }
            Ev::Fb { .. } => format!("#{i} fsync begins"),
            Ev::Fe { ok } => format!("#{i} fsync ends ok={ok}"),
        });
    }
    out
}

pub fn trace_shape(events: &[Ev]) -> String {
    let mut s = String::new();
    for ev in events {
        s.push(match ev {
            Ev::W { off, data, applied, .. } => {
                if !applied {
                    'x'
                } else {
                    match crate::mon::classify_write(*off, data) {
                        crate::mon::IoClass::MetaWrite => 'M',
                        crate::mon::IoClass::JournalWrite => 'J',
                        crate::mon::IoClass::DataWrite => 'D',
                        crate::mon::IoClass::MarkerWrite => 'R',
                        crate::mon::IoClass::Fsync => '?',
                    }
                }
            }
            Ev::Fb { .. } => '(',
            Ev::Fe { ok: true } => ')',
            Ev::Fe { ok: false } => '!',
        });
    }
    s
}
