//! M1 — executable sequential specification of the store: a last-writer-wins map
//! with TTL, memory accounting and the validation rules of the public API.
//! Written from the API documentation and the property statements; never calls feoxdb.

use std::collections::{BTreeMap, HashMap};

pub const MAX_KEY: usize = 100 * 1024;
pub const MAX_VALUE: usize = 4 * 1024 * 1024;
pub const MAX_REC_KEY: usize = 4066;
pub const MAX_REC_KEY_V1: usize = 4074;
pub const NS: u64 = 1_000_000_000;

#[derive(Clone, Debug, PartialEq, Eq)]
pub struct Gen {
    pub value: Vec<u8>,
    pub ts: u64,
    pub expiry: u64,
}

#[derive(Clone, Debug)]
pub struct MCfg {
    pub persistent: bool,
    pub ttl: bool,
    pub version: u32,
    pub max_memory: Option<usize>,
}

#[derive(Clone, Copy, Debug, PartialEq, Eq)]
pub enum Ts {
    /// `None` in the API
    None,
    /// `Some(0)` in the API (documented as automatic too)
    Zero,
    Explicit(u64),
}

impl Ts {
    pub fn explicit(self) -> Option<u64> {
        match self {
            Ts::Explicit(t) if t != 0 => Some(t),
            _ => None,
        }
    }
    pub fn api(self) -> Option<u64> {
        match self {
            Ts::None => None,
            Ts::Zero => Some(0),
            Ts::Explicit(t) => Some(t),
        }
    }
}

#[derive(Clone, Debug, PartialEq, Eq)]
pub enum Out {
    Bool(bool),
    Unit,
    Bytes(Vec<u8>),
    Int(i64),
    Size(usize),
    Ttl(Option<u64>),
    Pairs(Vec<(Vec<u8>, Vec<u8>)>),
    Err(&'static str),
}

impl Out {
    pub fn class(&self) -> &'static str {
        match self {
            Out::Bool(true) => "true",
            Out::Bool(false) => "false",
            Out::Unit => "ok",
            Out::Bytes(_) => "value",
            Out::Int(_) => "int",
            Out::Size(_) => "size",
            Out::Ttl(None) => "ttl_none",
            Out::Ttl(Some(0)) => "ttl_zero",
            Out::Ttl(Some(_)) => "ttl_some",
            Out::Pairs(p) if p.is_empty() => "pairs_empty",
            Out::Pairs(_) => "pairs",
            Out::Err(e) => e,
        }
    }
    pub fn brief(&self) -> String {
        match self {
            Out::Bytes(b) => format!("Bytes({})", crate::values::describe(b)),
            Out::Pairs(p) => format!(
                "Pairs[{}]",
                p.iter().map(|(k, v)| format!("{}={}", crate::report::hex(k), crate::values::describe(v))).collect::<Vec<_>>().join(", ")
            ),
            other => format!("{other:?}"),
        }
    }
}

#[derive(Clone, Debug)]
pub enum TsSrc {
    Explicit(u64),
    /// assigned by the store; `floor` = strict lower bound the statement gives
    Auto { floor: u64 },
}

#[derive(Clone, Debug)]
pub enum ExpSrc {
    None,
    /// timestamp + ttl seconds (saturating)
    FromTs(u64),
    Abs(u64),
}

#[derive(Clone, Debug)]
pub enum Eff {
    Remove(Vec<u8>),
    Put { key: Vec<u8>, value: Vec<u8>, ts: TsSrc, exp: ExpSrc },
}

#[derive(Clone, Debug)]
pub struct Model {
    pub cfg: MCfg,
    pub keys: BTreeMap<Vec<u8>, Gen>,
    pub now: u64,
    pub overhead: usize,
    /// highest timestamp accepted per key since the store was (re)opened
    pub max_ts: HashMap<Vec<u8>, u64>,
}

pub fn ttl_add(ts: u64, ttl: u64) -> u64 {
    ts.saturating_add(ttl.saturating_mul(NS))
}

impl Model {
    pub fn new(cfg: MCfg, overhead: usize, now: u64) -> Self {
        Model { cfg, keys: BTreeMap::new(), now, overhead, max_ts: HashMap::new() }
    }

    pub fn expired(&self, g: &Gen) -> bool {
        self.cfg.ttl && g.expiry > 0 && self.now > g.expiry
    }

    pub fn rec_size(&self, k: usize, v: usize) -> usize {
        self.overhead + k + v
    }

    pub fn mem_used(&self) -> usize {
        self.keys.iter().map(|(k, g)| self.rec_size(k.len(), g.value.len())).sum()
    }

    fn reserve(&self, extra: usize) -> Result<(), Out> {
        if extra == 0 {
            return Ok(());
        }
        if let Some(limit) = self.cfg.max_memory {
            if self.mem_used() + extra > limit {
                return Err(Out::Err("OutOfMemory"));
            }
        }
        Ok(())
    }

    fn key_ok(&self, k: &[u8]) -> Result<(), Out> {
        if k.is_empty() || k.len() > MAX_KEY {
            return Err(Out::Err("InvalidKeySize"));
        }
        Ok(())
    }

    fn new_key_ok(&self, k: &[u8]) -> Result<(), Out> {
        self.key_ok(k)?;
        if !self.cfg.persistent || k.len() <= MAX_REC_KEY {
            return Ok(());
        }
        if self.cfg.version == 1 && k.len() <= MAX_REC_KEY_V1 {
            return Ok(());
        }
        Err(Out::Err("InvalidKeySize"))
    }

    fn value_ok(&self, v: &[u8]) -> Result<(), Out> {
        if v.is_empty() || v.len() > MAX_VALUE {
            return Err(Out::Err("InvalidValueSize"));
        }
        Ok(())
    }

    fn ttl_write_supported(&self) -> Result<(), Out> {
        if self.cfg.persistent && self.cfg.version == 1 {
            return Err(Out::Err("Unsupported"));
        }
        Ok(())
    }

    /// Does a write with timestamp `ts` lose against generation `g`?
    fn older(ts: Ts, g: &Gen) -> bool {
        match ts.explicit() {
            Some(t) => t <= g.ts,
            None => g.ts == u64::MAX,
        }
    }

    fn src(ts: Ts, floor: u64) -> TsSrc {
        match ts.explicit() {
            Some(t) => TsSrc::Explicit(t),
            None => TsSrc::Auto { floor },
        }
    }

    /// insert / insert_bytes / insert_with_ttl[_and_timestamp] (ttl_api = Some(seconds) for the TTL entry points)
    pub fn insert(&self, k: &[u8], v: &[u8], ts: Ts, ttl_api: Option<u64>) -> (Out, Vec<Eff>) {
        if ttl_api.is_some() {
            if !self.cfg.ttl {
                return (Out::Err("TtlNotEnabled"), vec![]);
            }
            if let Err(e) = self.ttl_write_supported() {
                return (e, vec![]);
            }
        }
        if let Err(e) = self.new_key_ok(k).and_then(|_| self.value_ok(v)) {
            return (e, vec![]);
        }
        let ttl = ttl_api.unwrap_or(0);
        let exp = if ttl > 0 && self.cfg.ttl { ExpSrc::FromTs(ttl) } else { ExpSrc::None };
        match self.keys.get(k) {
            Some(g) => {
                if Self::older(ts, g) {
                    return (Out::Err("OlderTimestamp"), vec![]);
                }
                let old = self.rec_size(k.len(), g.value.len());
                let new = self.rec_size(k.len(), v.len());
                if let Err(e) = self.reserve(new.saturating_sub(old)) {
                    return (e, vec![]);
                }
                (Out::Bool(false), vec![Eff::Put { key: k.to_vec(), value: v.to_vec(), ts: Self::src(ts, g.ts), exp }])
            }
            None => {
                if let Err(e) = self.reserve(self.rec_size(k.len(), v.len())) {
                    return (e, vec![]);
                }
                (Out::Bool(true), vec![Eff::Put { key: k.to_vec(), value: v.to_vec(), ts: Self::src(ts, 0), exp }])
            }
        }
    }

    pub fn get(&self, k: &[u8]) -> Out {
        if let Err(e) = self.key_ok(k) {
            return e;
        }
        match self.keys.get(k) {
            None => Out::Err("KeyNotFound"),
            Some(g) if self.expired(g) => Out::Err("KeyNotFound"),
            Some(g) => Out::Bytes(g.value.clone()),
        }
    }

    pub fn get_size(&self, k: &[u8]) -> Out {
        if let Err(e) = self.key_ok(k) {
            return e;
        }
        match self.keys.get(k) {
            None => Out::Err("KeyNotFound"),
            Some(g) => Out::Size(g.value.len()),
        }
    }

    pub fn contains(&self, k: &[u8]) -> Out {
        Out::Bool(self.keys.contains_key(k))
    }

    pub fn delete(&self, k: &[u8], ts: Ts) -> (Out, Vec<Eff>) {
        if let Err(e) = self.key_ok(k) {
            return (e, vec![]);
        }
        match self.keys.get(k) {
            None => (Out::Err("KeyNotFound"), vec![]),
            Some(g) => {
                if Self::older(ts, g) {
                    return (Out::Err("OlderTimestamp"), vec![]);
                }
                (Out::Unit, vec![Eff::Remove(k.to_vec())])
            }
        }
    }

    pub fn incr(&self, k: &[u8], delta: i64, ts: Ts, ttl: u64) -> (Out, Vec<Eff>) {
        if ttl > 0 {
            if let Err(e) = self.ttl_write_supported() {
                return (e, vec![]);
            }
        }
        if let Err(e) = self.new_key_ok(k) {
            return (e, vec![]);
        }
        let exp = if ttl > 0 { ExpSrc::FromTs(ttl) } else { ExpSrc::None };
        let create = |floor: u64, pre: Vec<Eff>, removed: usize| -> (Out, Vec<Eff>) {
            // memory after the (possible) lazy removal
            let extra = self.rec_size(k.len(), 8);
            if let Some(limit) = self.cfg.max_memory {
                if self.mem_used() - removed + extra > limit {
                    return (Out::Err("OutOfMemory"), pre);
                }
            }
            let mut effs = pre;
            effs.push(Eff::Put { key: k.to_vec(), value: delta.to_le_bytes().to_vec(), ts: Self::src(ts, floor), exp: exp.clone() });
            (Out::Int(delta), effs)
        };
        match self.keys.get(k) {
            None => create(0, vec![], 0),
            Some(g) => {
                if let Some(t) = ts.explicit() {
                    if t <= g.ts {
                        return (Out::Err("OlderTimestamp"), vec![]);
                    }
                }
                if self.expired(g) {
                    // the expired generation is retired at `now`; the counter restarts from delta
                    let pre = vec![Eff::Remove(k.to_vec())];
                    if let Some(t) = ts.explicit() {
                        if t <= self.now {
                            return (Out::Err("OlderTimestamp"), pre);
                        }
                    }
                    let removed = self.rec_size(k.len(), g.value.len());
                    return create(self.now.max(g.ts), pre, removed);
                }
                if g.value.len() != 8 {
                    return (Out::Err("InvalidOperation"), vec![]);
                }
                let cur = i64::from_le_bytes(g.value[..8].try_into().unwrap());
                let new = cur.saturating_add(delta);
                if Self::older(ts, g) {
                    return (Out::Err("OlderTimestamp"), vec![]);
                }
                (Out::Int(new), vec![Eff::Put { key: k.to_vec(), value: new.to_le_bytes().to_vec(), ts: Self::src(ts, g.ts), exp }])
            }
        }
    }

    pub fn insert_if_absent(&self, k: &[u8], v: &[u8]) -> (Out, Vec<Eff>) {
        if let Err(e) = self.new_key_ok(k).and_then(|_| self.value_ok(v)) {
            return (e, vec![]);
        }
        if self.keys.contains_key(k) {
            return (Out::Bool(false), vec![]);
        }
        if let Err(e) = self.reserve(self.rec_size(k.len(), v.len())) {
            return (e, vec![]);
        }
        (Out::Bool(true), vec![Eff::Put { key: k.to_vec(), value: v.to_vec(), ts: TsSrc::Auto { floor: 0 }, exp: ExpSrc::None }])
    }

    pub fn cas(&self, k: &[u8], expected: &[u8], new: &[u8], ts: Ts, ttl: u64) -> (Out, Vec<Eff>) {
        if ttl > 0 {
            if let Err(e) = self.ttl_write_supported() {
                return (e, vec![]);
            }
        }
        if let Err(e) = self.new_key_ok(k).and_then(|_| self.value_ok(new)) {
            return (e, vec![]);
        }
        let Some(g) = self.keys.get(k) else { return (Out::Bool(false), vec![]) };
        if self.expired(g) || g.value != expected {
            return (Out::Bool(false), vec![]);
        }
        if Self::older(ts, g) {
            return (Out::Err("OlderTimestamp"), vec![]);
        }
        let old = self.rec_size(k.len(), g.value.len());
        let newsz = self.rec_size(k.len(), new.len());
        if let Err(e) = self.reserve(newsz.saturating_sub(old)) {
            return (e, vec![]);
        }
        let exp = if ttl > 0 { ExpSrc::FromTs(ttl) } else { ExpSrc::None };
        (Out::Bool(true), vec![Eff::Put { key: k.to_vec(), value: new.to_vec(), ts: Self::src(ts, g.ts), exp }])
    }

    pub fn json_patch(&self, k: &[u8], patch: &[u8], ts: Ts) -> (Out, Vec<Eff>) {
        if let Err(e) = self.key_ok(k) {
            return (e, vec![]);
        }
        let Some(g) = self.keys.get(k) else { return (Out::Err("KeyNotFound"), vec![]) };
        if Self::older(ts, g) {
            return (Out::Err("OlderTimestamp"), vec![]);
        }
        if self.expired(g) {
            return (Out::Err("KeyNotFound"), vec![]);
        }
        let new = match apply_patch(&g.value, patch) {
            Ok(v) => v,
            Err(_) => return (Out::Err("JsonPatchError"), vec![]),
        };
        if let Err(e) = self.value_ok(&new) {
            return (e, vec![]);
        }
        let old = self.rec_size(k.len(), g.value.len());
        let newsz = self.rec_size(k.len(), new.len());
        if let Err(e) = self.reserve(newsz.saturating_sub(old)) {
            return (e, vec![]);
        }
        (Out::Unit, vec![Eff::Put { key: k.to_vec(), value: new, ts: Self::src(ts, g.ts), exp: ExpSrc::None }])
    }

    pub fn update_ttl(&self, k: &[u8], ttl: u64) -> (Out, Vec<Eff>) {
        if !self.cfg.ttl {
            return (Out::Err("TtlNotEnabled"), vec![]);
        }
        if let Err(e) = self.ttl_write_supported() {
            return (e, vec![]);
        }
        if let Err(e) = self.key_ok(k) {
            return (e, vec![]);
        }
        let Some(g) = self.keys.get(k) else { return (Out::Err("KeyNotFound"), vec![]) };
        if g.expiry > 0 && self.now > g.expiry {
            return (Out::Err("KeyNotFound"), vec![]);
        }
        if g.ts == u64::MAX {
            return (Out::Err("OlderTimestamp"), vec![]);
        }
        let exp = if ttl == 0 { ExpSrc::None } else { ExpSrc::Abs(ttl_add(self.now, ttl)) };
        (Out::Unit, vec![Eff::Put { key: k.to_vec(), value: g.value.clone(), ts: TsSrc::Auto { floor: g.ts }, exp }])
    }

    pub fn get_ttl(&self, k: &[u8]) -> Out {
        if !self.cfg.ttl {
            return Out::Err("TtlNotEnabled");
        }
        if let Err(e) = self.key_ok(k) {
            return e;
        }
        match self.keys.get(k) {
            None => Out::Err("KeyNotFound"),
            Some(g) if g.expiry == 0 => Out::Ttl(None),
            Some(g) if self.now >= g.expiry => Out::Ttl(Some(0)),
            Some(g) => Out::Ttl(Some((g.expiry - self.now) / NS)),
        }
    }

    pub fn range(&self, start: &[u8], end: &[u8], limit: usize) -> Out {
        if start.len() > MAX_KEY || end.len() > MAX_KEY {
            return Out::Err("InvalidKeySize");
        }
        let mut out = Vec::new();
        if limit == 0 || start > end {
            return Out::Pairs(out);
        }
        for (k, g) in self.keys.range(start.to_vec()..=end.to_vec()) {
            if out.len() >= limit {
                break;
            }
            if self.expired(g) {
                continue;
            }
            out.push((k.clone(), g.value.clone()));
        }
        Out::Pairs(out)
    }

    /// Logical view after a clean restart: with TTL on, generations already expired are dropped.
    pub fn reopen(&mut self) {
        // every record recovery reads from the device counts as "recovered from disk" for its key,
        // including a newest generation that recovery then drops because it has expired
        self.max_ts.clear();
        for (k, g) in &self.keys {
            self.max_ts.insert(k.clone(), g.ts);
        }
        if self.cfg.ttl {
            let now = self.now;
            self.keys.retain(|_, g| !(g.expiry > 0 && now > g.expiry));
        }
    }
}

pub fn apply_patch(doc: &[u8], patch: &[u8]) -> Result<Vec<u8>, String> {
    let mut doc: serde_json::Value = serde_json::from_slice(doc).map_err(|e| e.to_string())?;
    let patch: json_patch::Patch = serde_json::from_slice(patch).map_err(|e| e.to_string())?;
    json_patch::patch(&mut doc, &patch).map_err(|e| e.to_string())?;
    serde_json::to_vec(&doc).map_err(|e| e.to_string())
}
