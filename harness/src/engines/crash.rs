//! E-crash: run a workload while recording the device trace (H1), cut the trace at
//! every point, build crash images (lost / reordered / torn in-flight writes), run
//! the REAL recovery on each and judge what it exposes against the per-key history.
//! Serves C02 (cuts after an acknowledgement), C03 (all cuts, authenticity, len),
//! C04 (recovery idempotent / restartable / touches no live block).

use crate::args::Args;
use crate::crashimg::{self, Recipe};
use crate::indep;
use crate::mon::{hub, Ev, FileMon};
use crate::report::{hex, Report};
use crate::rng::{fnv, fnv_mix, Rng};
use crate::storeutil::{self, Cfg, Dumped};
use crate::values::{self, Tag};
use feoxdb::FeoxStore;
use parking_lot::Mutex;
use serde_json::json;
use std::collections::{BTreeMap, HashSet};
use std::sync::atomic::{AtomicBool, AtomicU64, Ordering};
use std::sync::Arc;

pub const NOW: u64 = 1_800_000_000_000_000_000;

#[derive(Clone, Debug, PartialEq, Eq)]
pub struct State {
    pub value: Vec<u8>,
    pub ts: u64,
    pub expiry: u64,
}

#[derive(Clone, Debug)]
pub struct Hist {
    pub state: Option<State>,
    /// device-trace length when the call was invoked / returned
    pub inv: usize,
    pub ret: usize,
    /// global logical clock at invocation / return (orders client events in real time)
    pub inv_tick: u64,
    pub ret_tick: u64,
    pub what: String,
}

#[derive(Clone, Debug)]
pub struct Workload {
    pub cfg: Cfg,
    pub seed: u64,
    pub index: u64,
    pub base: Vec<u8>,
    pub events: Vec<Ev>,
    pub hist: BTreeMap<Vec<u8>, Vec<Hist>>,
    /// (trace length when the flush()/drop was invoked, when it returned, logical clock at invocation)
    pub acks: Vec<(usize, usize, u64)>,
    /// trace length when open() returned
    pub open_end: usize,
    pub log: Vec<String>,
    pub uring: bool,
    /// what the journal slot/generation discipline monitor found in the trace, if anything
    pub trace_problem: Option<String>,
}

static TICK: AtomicU64 = AtomicU64::new(1);
pub static HOSTILE_PREDICTED: AtomicU64 = AtomicU64::new(0);
fn tick() -> u64 {
    TICK.fetch_add(1, Ordering::SeqCst)
}

struct Client<'a> {
    store: &'a FeoxStore,
    mon: &'a FileMon,
    hist: BTreeMap<Vec<u8>, Vec<Hist>>,
    cur: BTreeMap<Vec<u8>, Vec<u8>>,
    log: Vec<String>,
}

impl<'a> Client<'a> {
    fn record(&mut self, key: &[u8], inv: (usize, u64), what: String) {
        crate::mon::hub().op_done();
        let ret_tick = tick();
        let ret = self.mon.len();
        let (inv, inv_tick) = inv;
        let state = self.store.verif_entry(key).map(|e| State { value: self.cur.get(key).cloned().unwrap_or_default(), ts: e.timestamp, expiry: e.ttl_expiry });
        if state.is_none() {
            self.cur.remove(key);
        }
        self.log.push(format!("[{inv}..{ret}] {what}"));
        self.hist.entry(key.to_vec()).or_default().push(Hist { state, inv, ret, inv_tick, ret_tick, what });
    }
}

fn key_name(thread: usize, i: usize) -> Vec<u8> {
    format!("c{thread}-key-{i:02}").into_bytes()
}

fn key_id(k: &[u8]) -> u32 {
    (fnv(k) & 0xffff_ffff) as u32
}

/// Ops of one client thread over its own keys.
fn client_ops(store: &FeoxStore, mon: &FileMon, cfg: &Cfg, rng: &mut Rng, thread: usize, nkeys: usize, nops: usize, acks: &Mutex<Vec<(usize, usize, u64)>>, flush_pm: u64, hostile: bool, initial: Option<(BTreeMap<Vec<u8>, Vec<Hist>>, BTreeMap<Vec<u8>, Vec<u8>>, u32, u64)>) -> (BTreeMap<Vec<u8>, Vec<Hist>>, Vec<String>) {
    let (hist0, cur0, seq0, now_off) = initial.unwrap_or_default();
    feoxdb::verif::set_thread_now_ns(NOW + now_off + thread as u64);
    let mut c = Client { store, mon, hist: hist0, cur: cur0, log: Vec::new() };
    let mut seq = seq0;
    let max_blocks: u64 = if cfg.blocks <= 16 + 64 { 3 } else { 5 };
    for _ in 0..nops {
        let k = key_name(thread, rng.usize_below(nkeys));
        let present = c.cur.contains_key(&k);
        let inv_pos = mon.len();
        let inv_tick = tick();
        let inv = (inv_pos, inv_tick);
        let roll = rng.below(100);
        if roll < flush_pm {
            // one flush in three is aimed at a background drain: wait (up to 150 ms) until the periodic flusher
            // has taken this thread's queued entries off their shards, then call flush() while that batch is
            // probably still on its way to the device - the acknowledgement has to cover it all the same
            let mut inv_pos = inv_pos;
            let mut inv_tick = inv_tick;
            if rng.chance(1, 3) && store.verif_pending().is_some_and(|p| p.shard_queued.iter().sum::<usize>() > 0) {
                let t0 = std::time::Instant::now();
                while t0.elapsed() < std::time::Duration::from_millis(150) {
                    if store.verif_pending().is_some_and(|p| p.shard_queued.iter().sum::<usize>() == 0) {
                        break;
                    }
                    std::thread::yield_now();
                }
                inv_pos = mon.len();
                inv_tick = tick();
            }
            let r = store.flush();
            let ret = mon.len();
            c.log.push(format!("[{inv_pos}..{ret}] flush() -> {:?}", r.as_ref().map_err(|e| storeutil::err_name(e))));
            if r.is_ok() {
                acks.lock().push((inv_pos, ret, inv_tick));
            }
            continue;
        }
        if roll < flush_pm + 6 {
            // let the periodic flusher (100 ms) pick things up on its own
            std::thread::sleep(std::time::Duration::from_millis(rng.range(40, 160)));
            continue;
        }
        seq += 1;
        let mut new_value = |rng: &mut Rng| -> Vec<u8> {
            let hl = indep::header_len(cfg.version, k.len());
            let len = match rng.below(10) {
                0..=3 => rng.range(22, 300) as usize,
                4..=5 => (4096 - hl) + rng.range(0, 2) as usize - 1,
                6..=8 => {
                    let b = rng.range(2, max_blocks) as usize;
                    (b * 4096 - hl) - rng.range(0, 600) as usize
                }
                _ => rng.range(300, 3000) as usize,
            };
            let tag = Tag { key_id: key_id(&k), writer: thread as u16, seq };
            if hostile && len > 4096 {
                // make the embedded ghost heads / markers byte-valid for the sector they will land on:
                // quiesce, then predict the best-fit allocation from the free-space snapshot
                let mut predicted = None;
                if rng.chance(2, 3) {
                    let (fi, ft) = (mon.len(), tick());
                    if store.flush().is_ok() {
                        acks.lock().push((fi, mon.len(), ft));
                    }
                    let need = indep::record_blocks(cfg.version, k.len(), len);
                    let snap = store.verif_snapshot();
                    let mut runs = snap.free_by_start.clone();
                    runs.sort_by_key(|r| (r.1, r.0));
                    predicted = runs.iter().find(|r| r.1 >= need).map(|r| r.0);
                    if predicted.is_some() {
                        HOSTILE_PREDICTED.fetch_add(1, Ordering::Relaxed);
                    }
                }
                hostile_value(tag, len, cfg.version, &k, seq, predicted)
            } else {
                values::make(tag, len)
            }
        };
        match rng.below(100) {
            0..=54 => {
                let v = new_value(rng);
                let r = if cfg.ttl && cfg.version >= 2 && rng.chance(1, 5) { store.insert_with_ttl(&k, &v, 3600 + rng.below(1000)) } else { store.insert(&k, &v) };
                if r.is_ok() {
                    c.cur.insert(k.clone(), v.clone());
                }
                c.record(&k, inv, format!("insert({}, {}) -> {:?}", hex(&k), values::describe(&v), r.as_ref().map_err(storeutil::err_name)));
            }
            55..=74 if present => {
                let r = store.delete(&k);
                if r.is_ok() {
                    c.cur.remove(&k);
                }
                c.record(&k, inv, format!("delete({}) -> {:?}", hex(&k), r.as_ref().map_err(storeutil::err_name)));
            }
            75..=82 if present && cfg.ttl && cfg.version >= 2 => {
                let r = store.update_ttl(&k, 7200 + rng.below(1000));
                c.record(&k, inv, format!("update_ttl({}) -> {:?}", hex(&k), r.as_ref().map_err(storeutil::err_name)));
            }
            83..=90 if present => {
                let v = new_value(rng);
                let exp = c.cur[&k].clone();
                let r = store.compare_and_swap(&k, &exp, &v);
                if let Ok(true) = r {
                    c.cur.insert(k.clone(), v.clone());
                }
                c.record(&k, inv, format!("cas({}, {}) -> {:?}", hex(&k), values::describe(&v), r.as_ref().map_err(storeutil::err_name)));
            }
            _ => {
                let v = new_value(rng);
                let r = store.insert(&k, &v);
                if r.is_ok() {
                    c.cur.insert(k.clone(), v.clone());
                }
                c.record(&k, inv, format!("insert({}, {}) -> {:?}", hex(&k), values::describe(&v), r.as_ref().map_err(storeutil::err_name)));
            }
        }
    }
    feoxdb::verif::set_thread_now_ns(0);
    (c.hist, c.log)
}

/// A value whose continuation blocks each start (at the 4096-aligned offsets of
/// the on-disk extent) with a byte-exact image of a record head for a ghost key,
/// or of a complete retirement marker. The landing sector is not known here, so the
/// v3 token of the ghost head is computed for several nearby candidate sectors in
/// rotation; v1/v2 heads need no token and are always "valid".
pub fn hostile_value(tag: Tag, len: usize, version: u32, key: &[u8], seq: u32, base_sector: Option<u64>) -> Vec<u8> {
    let hl = indep::header_len(version, key.len());
    values::make_with_body(tag, len, |body| {
        // body starts at value offset 18; value starts at extent offset hl
        let value_off_of_body = 18usize;
        let mut block = 1usize;
        loop {
            let ext_off = block * 4096;
            if ext_off < hl + value_off_of_body {
                block += 1;
                continue;
            }
            let pos = ext_off - hl - value_off_of_body;
            if pos + 4096 > body.len() {
                break;
            }
            let ghost_key = format!("ghost-{seq}-{block}").into_bytes();
            if block % 2 == 1 {
                let candidate_sector = base_sector.map(|b| b + block as u64).unwrap_or(16 + ((seq as u64 * 7 + block as u64) % 64));
                let rec = indep::encode_record(version, &ghost_key, b"ghost-value-ghost-value", 1_900_000_000_000_000_000 + seq as u64, 0, candidate_sector);
                body[pos..pos + 4096].copy_from_slice(&rec[..4096]);
            } else {
                let candidate_sector = base_sector.map(|b| b + block as u64).unwrap_or(16 + ((seq as u64 * 5 + block as u64) % 64));
                let m = indep::encode_marker(candidate_sector, 1 + (seq as u64 % 3), 1);
                body[pos..pos + 4096].copy_from_slice(&m);
            }
            block += 1;
        }
    })
}

pub fn run_workload(seed: u64, index: u64, dir: &str, tier_ops: usize) -> Result<Workload, String> {
    let mut rng = Rng::derive(seed, index, 0xc4a5);
    // every fourth workload runs on a device its live set nearly fills (12-20 blocks for up to 12 keys of 1-3
    // blocks): flushes hit OutOfSpace now and then, reservations are rolled back, retirements are forced to make
    // room - and every cut of THAT trace is a crash point too. A failed flush acknowledges nothing.
    let tight = index % 4 == 3;
    let data_blocks = if tight { *rng.pick(&[12u64, 16, 20]) } else { *rng.pick(&[48u64, 64, 96, 160]) };
    let mut cfg = Cfg::disk(16 + data_blocks);
    cfg.version = *rng.pick(&[3u32, 3, 3, 3, 2, 1]);
    cfg.ttl = rng.chance(1, 2);
    cfg.cache = rng.chance(1, 2);
    cfg.sync_io = rng.chance(1, 3);
    cfg.cpus = *rng.pick(&[2usize, 2, 4, 8, 16, 0]);
    let path = format!("{dir}/w{index}.feox");
    let _ = std::fs::remove_file(&path);
    storeutil::ensure_device(&cfg, &path);
    let base = if cfg.version >= 3 { vec![0u8; (cfg.blocks as usize) * 4096] } else { std::fs::read(&path).map_err(|e| e.to_string())? };
    let mon = hub().watch(&path);
    feoxdb::verif::set_thread_now_ns(NOW);
    let store = storeutil::open(&cfg, Some(&path)).map_err(|e| format!("workload open: {e:?}"))?;
    let open_end = mon.len();
    let uring = store.verif_uses_uring();
    let threads = if tight { 1 + rng.usize_below(2) } else { 1 + rng.usize_below(3) };
    let nkeys = if tight { 4 + rng.usize_below(3) } else { 3 + rng.usize_below(5) };
    let hostile = rng.chance(1, 3);
    let flush_pm = *rng.pick(&[4u64, 8, 12, 20]);
    let acks = Mutex::new(Vec::new());
    let mut hist = BTreeMap::new();
    let mut log = Vec::new();
    std::thread::scope(|s| {
        let mut handles = Vec::new();
        for t in 0..threads {
            let mut trng = Rng::derive(seed, index, 100 + t as u64);
            let (store, mon, cfg, acks) = (&store, &*mon, &cfg, &acks);
            handles.push(s.spawn(move || client_ops(store, mon, cfg, &mut trng, t, nkeys, tier_ops, acks, flush_pm, hostile, None)));
        }
        for h in handles {
            let (hh, ll) = h.join().expect("client thread");
            hist.extend(hh);
            log.extend(ll);
        }
    });
    // ending: explicit flush, clean drop, or "crash" with whatever the periodic flusher managed
    let ending = if tight { 0 } else { rng.below(3) };
    let mut drop_acknowledges = true;
    if ending == 0 {
        let inv = mon.len();
        let t = tick();
        let r = store.flush();
        if r.is_ok() {
            acks.lock().push((inv, mon.len(), t));
        } else if tight {
            // the device is full: the drop's own final flush cannot place everything either (it only logs that)
            drop_acknowledges = false;
        }
        log.push(format!("[{inv}..{}] final flush() -> {:?}", mon.len(), r.as_ref().map_err(storeutil::err_name)));
    } else if ending == 1 {
        std::thread::sleep(std::time::Duration::from_millis(rng.range(0, 250)));
    }
    let inv = mon.len();
    let t = tick();
    drop(store);
    let ret = mon.len();
    log.push(format!("[{inv}..{ret}] clean drop"));
    let mut acks = acks.into_inner();
    if drop_acknowledges {
        acks.push((inv, ret, t));
    }
    acks.sort();
    let events = mon.take_events();
    hub().unwatch(&mon);
    feoxdb::verif::set_thread_now_ns(0);
    let _ = std::fs::remove_file(&path);
    let trace_problem = crashimg::journal_discipline(&events, &[]).err();
    Ok(Workload { cfg, seed, index, base, events, hist, acks, open_end, log, uring, trace_problem })
}

/// Second epoch (C02/C03 across restarts): recover a crash image of `w1` with the real store,
/// take what recovery exposes as the acknowledged initial state, run further client calls
/// (deletes / updates of the recovered keys, flushes) with the trace recorded from the open on.
/// Crash images of THIS trace must never go back behind the recovered state or an epoch-2
/// acknowledgement — e.g. a stale older generation that recovery left lying on the device must
/// not come back once the key's newest generation is deleted and the delete acknowledged.
pub fn run_epoch2(w1: &Workload, image: Vec<u8>, seed: u64, salt: u64, dir: &str, ops: usize) -> Result<Workload, String> {
    let mut rng = Rng::derive(seed, w1.index, 0xe2 ^ salt);
    let path = format!("{dir}/e2-{}-{salt}.feox", w1.index);
    std::fs::write(&path, &image).map_err(|e| e.to_string())?;
    let mut cfg = w1.cfg.clone();
    cfg.cpus = 2;
    let mon = hub().watch(&path);
    feoxdb::verif::set_thread_now_ns(NOW + 5_000_000_000);
    let store = match storeutil::open(&cfg, Some(&path)) {
        Ok(s) => s,
        Err(e) => {
            hub().unwatch(&mon);
            return Err(format!("epoch-2 open: {e:?}"));
        }
    };
    let open_end = mon.len();
    let uring = store.verif_uses_uring();
    // recovered state = acknowledged starting point
    let dump = storeutil::dump(&store);
    let t0 = tick();
    let mut hist: BTreeMap<Vec<u8>, Vec<Hist>> = BTreeMap::new();
    let mut cur: BTreeMap<Vec<u8>, Vec<u8>> = BTreeMap::new();
    for key in w1.hist.keys() {
        let state = dump.get(key).and_then(|d| d.value.as_ref().ok().map(|v| State { value: v.clone(), ts: d.ts, expiry: d.expiry }));
        if let Some(s) = &state {
            cur.insert(key.clone(), s.value.clone());
        }
        hist.insert(key.clone(), vec![Hist { state, inv: 0, ret: 0, inv_tick: t0, ret_tick: t0, what: "state exposed by recovery of the epoch-1 crash image".into() }]);
    }
    let acks = Mutex::new(vec![(0usize, 0usize, tick())]);
    feoxdb::verif::set_thread_now_ns(NOW + 6_000_000_000);
    // systematic pass: every recovered key is deleted or rewritten, then acknowledged by a flush —
    // anything recovery left lying around for these keys must not come back afterwards
    let mut pass = Client { store: &store, mon: &mon, hist, cur, log: Vec::new() };
    let all: Vec<Vec<u8>> = pass.hist.keys().cloned().collect();
    let mut seq = 20_000 + salt as u32 * 100;
    for k in &all {
        if !pass.cur.contains_key(k) {
            continue;
        }
        let inv = (mon.len(), tick());
        if rng.chance(2, 3) {
            let r = store.delete(k);
            if r.is_ok() {
                pass.cur.remove(k);
            }
            pass.record(k, inv, format!("delete({}) -> {:?}", hex(k), r.as_ref().map_err(storeutil::err_name)));
        } else {
            seq += 1;
            let v = values::make(Tag { key_id: key_id(k), writer: 9, seq }, rng.range(22, 5000) as usize);
            let r = store.insert(k, &v);
            if r.is_ok() {
                pass.cur.insert(k.clone(), v.clone());
            }
            pass.record(k, inv, format!("insert({}, {}) -> {:?}", hex(k), values::describe(&v), r.as_ref().map_err(storeutil::err_name)));
        }
    }
    {
        let (inv, t) = (mon.len(), tick());
        let r = store.flush();
        pass.log.push(format!("[{inv}..{}] flush() -> {:?}", mon.len(), r.as_ref().map_err(storeutil::err_name)));
        if r.is_ok() {
            acks.lock().push((inv, mon.len(), t));
        }
    }
    let Client { hist, cur, log: pass_log, .. } = pass;
    let nkeys = w1.hist.keys().filter(|k| k.starts_with(b"c0-")).count().max(3);
    let (c0_hist, other_hist): (BTreeMap<_, _>, BTreeMap<_, _>) = hist.into_iter().partition(|(k, _)| k.starts_with(b"c0-"));
    let (h2, mut log) = client_ops(&store, &mon, &cfg, &mut rng, 0, nkeys, ops / 2, &acks, 25, false, Some((c0_hist, cur.into_iter().filter(|(k, _)| k.starts_with(b"c0-")).collect(), 30_000 + salt as u32 * 100, 7_000_000_000)));
    let mut hist2: BTreeMap<Vec<u8>, Vec<Hist>> = other_hist;
    hist2.extend(h2);
    let mut full_log = pass_log;
    full_log.append(&mut log);
    let mut log = full_log;
    let _ = t0;
    let inv = mon.len();
    let t = tick();
    drop(store);
    let ret = mon.len();
    log.push(format!("[{inv}..{ret}] clean drop"));
    let mut acks = acks.into_inner();
    // on a device the live set nearly fills, the final flush of a drop may be unable to place a pending record
    // (it only logs that): there the drop acknowledges nothing, only the explicit flushes that returned Ok do
    if cfg.blocks > 16 + 32 {
        acks.push((inv, ret, t));
    }
    acks.sort();
    let events = mon.take_events();
    hub().unwatch(&mon);
    feoxdb::verif::set_thread_now_ns(0);
    let _ = std::fs::remove_file(&path);
    let trace_problem = crashimg::journal_discipline(&events, &[]).err();
    Ok(Workload { cfg, seed, index: w1.index * 1000 + salt, base: image, events, hist: hist2, acks, open_end, log, uring, trace_problem })
}

// ------------------------------------------------------------------ judging

pub struct Recovered {
    pub dump: BTreeMap<Vec<u8>, Dumped>,
    pub len: usize,
    pub recovery_events: Vec<Ev>,
    /// partition invariant of the recovered store (C05): Err(sig, msg) if violated
    pub partition: Result<(u64, u64), (String, String)>,
    /// exact accounting of the recovered store (C13): memory_usage() and len() against the recovered keys
    pub acct: Result<(), String>,
}

/// Open `image` with the real store (recovery runs, read-write), dump it. The store
/// is handed to `reaper` so the 0.5 s worker shutdown does not serialise the engine.
pub fn recover_image(image: &[u8], path: &str, version: u32, trace: bool, keep: bool) -> Result<(Recovered, Option<FeoxStore>), String> {
    std::fs::write(path, image).map_err(|e| e.to_string())?;
    let mut cfg = Cfg::disk((image.len() / 4096) as u64);
    cfg.version = version;
    cfg.ttl = false;
    cfg.cache = false;
    cfg.cpus = 2;
    cfg.sync_io = true;
    let mon = if trace { Some(hub().watch(path)) } else { None };
    feoxdb::verif::set_thread_now_ns(NOW + 1_000_000);
    let opened = storeutil::open(&cfg, Some(path));
    let recovery_events = mon.as_ref().map(|m| m.take_events()).unwrap_or_default();
    if let Some(m) = &mon {
        hub().unwatch(m);
    }
    let store = match opened {
        Ok(s) => s,
        Err(e) => {
            feoxdb::verif::set_thread_now_ns(0);
            return Err(format!("{e:?}"));
        }
    };
    let dump = storeutil::dump(&store);
    let len = store.len();
    let partition = crate::engines::layout::check_partition(&store.verif_snapshot(), version, &[]);
    let acct = {
        let snap = store.verif_snapshot();
        let overhead = storeutil::record_overhead();
        let sum: usize = snap.entries.iter().map(|e| overhead + e.key.len() + e.value_len).sum();
        if store.memory_usage() != sum || len != snap.entries.len() {
            Err(format!("after recovery memory_usage() = {} but the {} recovered keys add up to {} (overhead {overhead}); len() = {len}", store.memory_usage(), snap.entries.len(), sum))
        } else {
            Ok(())
        }
    };
    feoxdb::verif::set_thread_now_ns(0);
    let rec = Recovered { dump, len, recovery_events, partition, acct };
    if keep {
        Ok((rec, Some(store)))
    } else {
        // the dropping store keeps its fd; unlink so the path can never be reused under it
        let _ = std::fs::remove_file(path);
        REAPER.with_store(store);
        Ok((rec, None))
    }
}

/// Drops stores on background threads (each drop blocks ~0.5 s on worker shutdown).
pub struct Reaper {
    in_flight: AtomicU64,
}
pub static REAPER: Reaper = Reaper { in_flight: AtomicU64::new(0) };
impl Reaper {
    pub fn with_store(&'static self, store: FeoxStore) {
        while self.in_flight.load(Ordering::Acquire) > 192 {
            std::thread::sleep(std::time::Duration::from_millis(5));
        }
        self.in_flight.fetch_add(1, Ordering::AcqRel);
        std::thread::spawn(move || {
            drop(store);
            self.in_flight.fetch_sub(1, Ordering::AcqRel);
        });
    }
    pub fn wait(&self) {
        while self.in_flight.load(Ordering::Acquire) > 0 {
            std::thread::sleep(std::time::Duration::from_millis(5));
        }
    }
}

/// Admissible history window of `key` for a crash at `cut`.
fn window(w: &Workload, key: &[u8], cut: usize) -> (usize, usize) {
    let h = &w.hist[key];
    // latest acknowledgement that returned before the crash
    let ack = w.acks.iter().filter(|(_, ret, _)| *ret <= cut).map(|(_, _, tick)| *tick).max();
    let mut lo = 0usize; // 0 = "absent before any op" (virtual entry), i+1 = h[i]
    if let Some(ack_tick) = ack {
        for (i, e) in h.iter().enumerate() {
            if e.ret_tick < ack_tick {
                lo = i + 1;
            }
        }
    }
    let mut hi = 0usize;
    for (i, e) in h.iter().enumerate() {
        if e.inv < cut {
            hi = i + 1;
        }
    }
    (lo, hi.max(lo))
}

fn state_at<'a>(w: &'a Workload, key: &[u8], i: usize) -> Option<&'a State> {
    if i == 0 {
        None
    } else {
        w.hist[key][i - 1].state.as_ref()
    }
}

pub fn judge(w: &Workload, recipe: &Recipe, rec: &Recovered) -> Result<bool, (String, String)> {
    let cut = recipe.cut;
    let mut differs_from_final = false;
    // every exposed key is one the application wrote, with an authentic, recent generation
    for (key, d) in &rec.dump {
        if !w.hist.contains_key(key) {
            return Err(("crash:ghost-key".into(), format!("recovery exposes key {} which the application never wrote (value {:?})", hex(key), d.value.as_ref().map(|v| values::describe(v)))));
        }
        let value = match &d.value {
            Ok(v) => v,
            Err(e) => return Err(("crash:unreadable".into(), format!("recovered key {} cannot be read: {e}", hex(key)))),
        };
        let (lo, hi) = window(w, key, cut);
        let matches: Vec<usize> = (0..=w.hist[key].len()).filter(|&i| state_at(w, key, i).is_some_and(|s| s.value == *value && s.ts == d.ts && s.expiry == d.expiry)).collect();
        if matches.is_empty() {
            let torn = values::check(value).is_err();
            return Err((
                if torn { "crash:torn-or-mixed".into() } else { "crash:unauthentic-generation".into() },
                format!("recovered key {} = ({}, ts {}, expiry {}) is not any generation the application stored under it", hex(key), values::describe(value), d.ts, d.expiry),
            ));
        }
        if !matches.iter().any(|i| *i >= lo && *i <= hi) {
            let newest = matches.iter().max().unwrap();
            if *newest < lo {
                return Err((
                    "crash:older-than-acknowledged".into(),
                    format!("recovered key {} holds generation #{} ({}) but generation #{} had been acknowledged durable before the crash (window {}..={})", hex(key), newest, w.hist[key][newest - 1].what, lo, lo, hi),
                ));
            }
            return Err(("crash:from-the-future".into(), format!("recovered key {} holds generation #{} which was invoked after the crash point", hex(key), newest)));
        }
    }
    // keys that are absent: absence must be admissible
    for key in w.hist.keys() {
        if rec.dump.contains_key(key) {
            continue;
        }
        let (lo, hi) = window(w, key, cut);
        if !(lo..=hi).any(|i| state_at(w, key, i).is_none()) {
            return Err((
                "crash:lost-acknowledged".into(),
                format!("key {} is missing after recovery although generation #{} ({}) was acknowledged durable and no delete was invoked before the crash", hex(key), lo, w.hist[key][lo - 1].what),
            ));
        }
        if w.hist[key].last().is_some_and(|e| e.state.is_some()) {
            differs_from_final = true;
        }
    }
    if rec.len != rec.dump.len() {
        return Err(("crash:len".into(), format!("len() = {} but {} keys are exposed", rec.len, rec.dump.len())));
    }
    for (key, d) in &rec.dump {
        let last = w.hist[key].last().and_then(|e| e.state.as_ref());
        if last.map(|s| (&s.value, s.ts)) != d.value.as_ref().ok().map(|v| (v, d.ts)) {
            differs_from_final = true;
        }
    }
    Ok(differs_from_final)
}

// ------------------------------------------------------------------ engine

struct Job {
    w: Arc<Workload>,
    recipe: Recipe,
}

/// Probe `split`: two flush workers share one free run that still carries the retirement markers of
/// its former owner (each marker claims everything up to the end of the run). The worker that
/// allocated first is delayed between allocation and the device (scheduling point
/// `flush.allocated`); the other one - if the store lets it - allocates behind it, makes its record
/// durable, clears the journal and retires the generation it replaced. Every instant of that run is
/// a crash point: each durable image must recover both keys (acknowledged before the probe began)
/// in their old or their new generation.
fn split_probe(args: &Args, report: &mut Report) {
    use crate::values::Tag;
    let rounds = args.num("rounds", 6);
    let scratch = storeutil::Scratch(storeutil::scratch_dir("split"));
    let dir = scratch.0.clone();
    for round in 0..rounds {
        let rid = round * args.num("shards", 1).max(1) + args.num("shard", 0);
        let mut rng = Rng::derive(args.seed, rid, 0x5b117);
        let version = *rng.pick(&[3u32, 3, 2, 1]);
        let mut cfg = Cfg::disk(16 + 320);
        cfg.version = version;
        cfg.cpus = 4;
        cfg.cache = false;
        cfg.sync_io = rng.chance(1, 3);
        let path = format!("{dir}/split-{rid}.feox");
        let _ = std::fs::remove_file(&path);
        storeutil::ensure_device(&cfg, &path);
        let base = std::fs::read(&path).ok().filter(|b| b.len() == cfg.blocks as usize * 4096).unwrap_or_else(|| vec![0u8; cfg.blocks as usize * 4096]);
        let mon = hub().watch(&path);
        let store = match storeutil::open(&cfg, Some(&path)) {
            Ok(s) => Arc::new(s),
            Err(e) => {
                report.inconclusive.push(format!("split probe: open failed {e:?}"));
                continue;
            }
        };
        let replay = json!({"engine": "crash", "mode": "split", "seed": args.seed, "round": rid, "config": cfg.label()});
        // one durable, acknowledged key per shard
        let mut per_shard: Vec<Option<(Vec<u8>, Vec<u8>)>> = vec![None, None];
        for i in 0..64 {
            if per_shard.iter().all(|k| k.is_some()) {
                break;
            }
            let k = format!("split-{i:02}").into_bytes();
            let v = values::make(Tag { key_id: i, writer: 0, seq: 1 }, 100 + i as usize);
            if store.insert(&k, &v).is_err() {
                continue;
            }
            let shard = store.verif_pending().and_then(|p| p.shard_queued.iter().position(|q| *q > 0));
            let _ = store.flush();
            if let Some(s) = shard {
                if s < 2 && per_shard[s].is_none() {
                    per_shard[s] = Some((k, v));
                }
            }
        }
        let (Some((ka, va)), Some((kb, vb))) = (per_shard[0].clone(), per_shard[1].clone()) else {
            report.inconclusive.push("split probe: could not place one key per shard".into());
            continue;
        };
        // a retired run of 4-9 blocks at the start of the free space
        let victim_blocks = rng.range(4, 9) as usize;
        let _ = store.insert(b"victim", &values::make(Tag { key_id: 999, writer: 0, seq: 1 }, victim_blocks * 4096 - 300));
        let _ = store.flush();
        let _ = store.delete(b"victim");
        if store.flush().is_err() {
            report.inconclusive.push("split probe: set-up flush failed".into());
            continue;
        }
        let before = mon.len();
        let arrivals = Arc::new(AtomicU64::new(0));
        {
            let arrivals = arrivals.clone();
            hub().set_action(Some(Arc::new(move |point: &'static str| {
                if point == "flush.allocated" && arrivals.fetch_add(1, Ordering::SeqCst) == 0 {
                    std::thread::sleep(std::time::Duration::from_millis(400));
                }
            })));
        }
        let na = values::make(Tag { key_id: 1, writer: 0, seq: 2 }, rng.range(1, 2) as usize * 4096 + 300);
        let nb = values::make(Tag { key_id: 2, writer: 0, seq: 2 }, rng.range(100, 5000) as usize);
        let _ = store.insert(&ka, &na);
        let _ = store.insert(&kb, &nb);
        let flusher = {
            let s = store.clone();
            std::thread::spawn(move || s.flush())
        };
        let flushed = flusher.join().map(|r| r.is_ok()).unwrap_or(false);
        hub().set_action(None);
        let events = mon.events();
        hub().unwatch(&mon);
        // how far apart did the two batches become durable? (a record write whose extent lies behind an
        // allocated-but-unwritten extent of the other worker is what the probe is after)
        let mut images = 0u64;
        for cut in before..=events.len() {
            if cut < events.len() && !matches!(events[cut.saturating_sub(1)], Ev::Fe { .. }) && cut != before {
                continue; // the durable image only changes when an fsync completes
            }
            let image = crashimg::build(&base, &events, &Recipe { cut, keep: vec![], tear: None });
            let ipath = format!("{dir}/split-{rid}-{cut}.img");
            images += 1;
            match recover_image(&image, &ipath, version, false, false) {
                Err(e) => report.violation("split:reopen-failed", format!("durable image after {cut} events cannot be reopened: {e}"), replay.clone()),
                Ok((rec, _)) => {
                    for (k, old, new) in [(&ka, &va, &na), (&kb, &vb, &nb)] {
                        match rec.dump.get(k.as_slice()).map(|d| d.value.clone()) {
                            Some(Ok(v)) if v == *old || v == *new => {}
                            other => {
                                let mut r = replay.clone();
                                r["events_before_cut"] = json!(crashimg::digest(&events, cut.saturating_sub(40), cut));
                                report.violation(
                                    "split:acknowledged-key-lost",
                                    format!(
                                        "key {} was durable and acknowledged before two flush workers shared a retired free run; in the durable image after {cut} device events it recovers as {:?} (neither its old nor its new generation)",
                                        hex(k),
                                        other.map(|r| r.map(|v| values::describe(&v)))
                                    ),
                                    r,
                                );
                            }
                        }
                    }
                }
            }
            report.evaluations += 1;
        }
        report.count("split_rounds", 1);
        report.count("split_images", images);
        report.count(&format!("split_rounds_v{version}"), 1);
        if !flushed {
            report.count("split_flush_failed", 1);
        }
        if arrivals.load(Ordering::SeqCst) >= 2 {
            report.count("split_rounds_with_two_batches", 1);
            report.nontrivial.insert(fnv_mix(fnv_mix(version as u64, victim_blocks as u64), events.len() as u64));
        }
        drop(store);
        let _ = std::fs::remove_file(&path);
    }
    REAPER.wait();
}

/// Probe for C04: the generation recovery has to retire fills its blocks EXACTLY (on-disk size a multiple of the
/// block size, 1-3 blocks), and a live record sits in the very next block. The stale duplicate is produced by
/// crashing between "replacement durable" and "old generation retired"; every event boundary of that flush is a
/// crash point, each image goes through the idempotence / restartability / live-block checks of the idem mode.
fn aligned_probe(args: &Args, report: &mut Report) {
    use crate::values::Tag;
    let rounds = args.num("rounds", 6);
    let scratch = storeutil::Scratch(storeutil::scratch_dir("aligned"));
    let dir = scratch.0.clone();
    for round in 0..rounds {
        let rid = round * args.num("shards", 1).max(1) + args.num("shard", 0);
        let mut rng = Rng::derive(args.seed, rid, 0xa119);
        let version = [3u32, 2, 1, 3][(rid % 4) as usize];
        let mut cfg = Cfg::disk(16 + 64);
        cfg.version = version;
        cfg.cpus = 2;
        cfg.cache = false;
        cfg.sync_io = rng.chance(1, 2);
        let path = format!("{dir}/aligned-{rid}.feox");
        let _ = std::fs::remove_file(&path);
        storeutil::ensure_device(&cfg, &path);
        let base = std::fs::read(&path).ok().filter(|b| b.len() == cfg.blocks as usize * 4096).unwrap_or_else(|| vec![0u8; cfg.blocks as usize * 4096]);
        let mon = hub().watch(&path);
        let store = match storeutil::open(&cfg, Some(&path)) {
            Ok(s) => s,
            Err(e) => {
                report.inconclusive.push(format!("aligned probe: open failed {e:?}"));
                continue;
            }
        };
        let replay = json!({"engine": "crash", "mode": "aligned", "seed": args.seed, "round": rid, "config": cfg.label()});
        let ka = b"aligned-a".to_vec();
        let kb = b"behind-b".to_vec();
        let blocks = rng.range(1, 3) as usize;
        let hl = indep::header_len(version, ka.len());
        let va = values::make(Tag { key_id: 1, writer: 0, seq: 1 }, blocks * 4096 - hl);
        let vb = values::make(Tag { key_id: 2, writer: 0, seq: 1 }, rng.range(30, 6000) as usize);
        // one at a time so that B is allocated right behind A
        let ok = store.insert(&ka, &va).is_ok() && store.flush().is_ok() && store.insert(&kb, &vb).is_ok() && store.flush().is_ok();
        let (sa, sb) = (store.verif_entry(&ka).map(|e| e.sector).unwrap_or(0), store.verif_entry(&kb).map(|e| e.sector).unwrap_or(0));
        if !ok || sa == 0 || sb != sa + blocks as u64 {
            report.inconclusive.push(format!("aligned probe: layout not as intended (a at {sa}+{blocks}, b at {sb})"));
            continue;
        }
        let before = mon.len();
        let na = values::make(Tag { key_id: 1, writer: 0, seq: 2 }, rng.range(30, 9000) as usize);
        let _ = store.insert(&ka, &na);
        let _ = store.flush();
        let events = mon.events();
        hub().unwatch(&mon);
        drop(store);
        let w = Workload { cfg: cfg.clone(), seed: args.seed, index: rid, base: base.clone(), events: events.clone(), hist: BTreeMap::new(), acks: Vec::new(), open_end: 0, log: Vec::new(), uring: false, trace_problem: None };
        let mut with_dup = 0u64;
        for cut in before..=events.len() {
            for keep_all in [false, true] {
                let keep = if keep_all { crashimg::volatile(&events, cut) } else { vec![] };
                if keep_all && keep.is_empty() {
                    continue;
                }
                let recipe = Recipe { cut, keep, tear: None };
                let image = crashimg::build(&base, &events, &recipe);
                let dup = indep::scan(&image, None, true).map(|s| s.heads.len() > s.records.len()).unwrap_or(false);
                if dup {
                    with_dup += 1;
                }
                let ipath = format!("{dir}/aligned-{rid}-{cut}-{}.img", keep_all as u8);
                report.evaluations += 1;
                // B was acknowledged before the update began: it must be there, intact, after every recovery
                match recover_image(&image, &ipath, version, false, false) {
                    Ok((rec, _)) => match rec.dump.get(kb.as_slice()).map(|d| d.value.clone()) {
                        Some(Ok(v)) if v == vb => {}
                        other => {
                            let mut r = replay.clone();
                            r["events_before_cut"] = json!(crashimg::digest(&events, cut.saturating_sub(30), cut));
                            report.violation("aligned:neighbour-damaged", format!("the record right behind a block-aligned generation ({blocks} block(s) at {sa}) that recovery had to retire recovers as {:?}", other.map(|r| r.map(|v| values::describe(&v)))), r);
                        }
                    },
                    Err(_) => {}
                }
                if !dup {
                    let _ = std::fs::remove_file(&ipath);
                    continue;
                }
                if let Err((sig, msg)) = idem_check(&w, &recipe, &image, &ipath, report, args.seed) {
                    let mut r = replay.clone();
                    r["events_before_cut"] = json!(crashimg::digest(&events, cut.saturating_sub(30), cut));
                    report.violation(format!("aligned:{sig}"), format!("aligned generation of {blocks} block(s) at {sa}, live neighbour at {sb}, cut {cut}: {msg}"), r);
                }
                let _ = std::fs::remove_file(&ipath);
                if report.violations.len() >= 3 {
                    break;
                }
            }
        }
        report.count("aligned_rounds", 1);
        report.count("aligned_images_with_a_stale_duplicate", with_dup);
        if with_dup > 0 {
            report.nontrivial.insert(fnv_mix(fnv_mix(version as u64, blocks as u64), with_dup));
        }
        let _ = std::fs::remove_file(&path);
    }
    REAPER.wait();
}

pub fn run(args: &Args) -> Report {
    let mode = args.get("mode").unwrap_or("all").to_string(); // ack | all | idem
    if mode == "aligned" {
        let mut report = Report::new(
            "crash",
            "probe: a generation whose on-disk size is an exact multiple of the block size (1-3 blocks, v1/v2/v3) is superseded; every event boundary of the superseding flush is a crash point (durable prefix and as-is image); where the image holds the stale duplicate, recovery has to retire it - the live record in the very next block must survive intact, recovery's writes must stay off live extents, repeated opens and crashes inside the repair must reproduce the first recovery's contents. distinct = (format version, blocks, images holding a stale duplicate)",
        );
        aligned_probe(args, &mut report);
        return report;
    }
    if mode == "split" {
        let mut report = Report::new(
            "crash",
            "probe: two flush workers share one free run that still carries its former owner's retirement markers; the first to allocate is delayed between allocation and the device (scheduling point flush.allocated); every fsync boundary of the run is a crash point whose durable image must recover both (previously acknowledged) keys in their old or new generation. v1/v2/v3, io_uring and synchronous I/O, retired runs of 4-9 blocks. distinct = (format version, run length, trace length) of rounds in which both workers flushed a batch",
        );
        split_probe(args, &mut report);
        return report;
    }
    let mut report = Report::new(
        "crash",
        "workloads (1-3 client threads on disjoint keys, inserts/updates across block-count boundaries/deletes/TTL-only updates/CAS, seeded flush() calls, periodic flusher, 1-8 shards, io_uring and synchronous I/O, v1/v2/v3 devices of 48-160 data blocks) run with the device trace recorded by hook H1; for every cut (or a seeded sample of cuts on long traces) the images {durable prefix + subsets of the not-yet-fsynced writes (+ one write torn at 512-byte sectors)} are built, recovered by the real store and judged against the per-key generation history and the acknowledgements. distinct = distinct image contents (hash); non-trivial = recovered contents differ from the workload's final state",
    );
    let thorough = args.thorough();
    let workloads = args.num("workloads", if thorough { 160 } else { 10 });
    let ops = args.num("ops", if thorough { 40 } else { 26 }) as usize;
    let max_cuts = args.num("cuts", if thorough { 400 } else { 140 }) as usize;
    let shard = args.num("shard", 0);
    let shards = args.num("shards", 1).max(1);
    let scratch = storeutil::Scratch(storeutil::scratch_dir(&format!("crash{shard}")));
    let dir = scratch.0.clone();
    let threads = args.num("threads", 48) as usize;

    // schedule perturbation (M7) while the workloads run: widen the windows between publishing a
    // generation in the index and queueing its write, and between the flusher's phases
    let ctl = Arc::new(
        crate::mon::SchedCtl::new(args.seed, 20, 300)
            .target("update.before_enqueue", 120, 1500)
            .target("insert.before_enqueue", 60, 1000)
            .target("delete.before_enqueue", 120, 1500)
            .target("ttl.before_enqueue", 120, 1500)
            .target("flush.before_data", 100, 800)
            .target("flush.before_clear", 100, 800)
            .target("flush.before_publish", 100, 800)
            .target("retire.before_markers", 100, 800)
            .target("retire.before_release", 100, 800),
    );
    hub().set_sched(Some(ctl.clone()));
    // phase 1: workloads (sequentially-started, a few at a time: they are timing sensitive)
    let mut wls: Vec<Arc<Workload>> = Vec::new();
    let only = args.get("only").map(|s| s.parse::<u64>().expect("--only <workload index>"));
    let ids: Vec<u64> = (0..workloads).filter(|i| i % shards == shard).filter(|i| only.is_none_or(|o| o == *i)).collect();
    for chunk in ids.chunks(8) {
        let results: Vec<Result<Workload, String>> = std::thread::scope(|s| {
            let hs: Vec<_> = chunk.iter().map(|&i| { let dir = dir.clone(); s.spawn(move || run_workload(args.seed, i, &dir, ops)) }).collect();
            hs.into_iter().map(|h| h.join().unwrap_or_else(|_| Err("workload panicked".into()))).collect()
        });
        for r in results {
            match r {
                Ok(w) => {
                    report.count("traces_checked_against_the_journal_discipline", 1);
                    if w.cfg.blocks <= 16 + 32 {
                        report.count("workloads_on_nearly_full_devices", 1);
                    }
                    report.count("flush_calls_refused_out_of_space", w.log.iter().filter(|l| l.contains("flush() ->") && l.contains("OutOfSpace")).count() as u64);
                    if let Some(p) = &w.trace_problem {
                        report.violation("crash:journal-discipline", format!("workload {} on {}: {p}", w.index, w.cfg.label()), json!({"engine": "crash", "seed": w.seed, "workload": w.index, "config": w.cfg.label(), "client_log": w.log}));
                    }
                    wls.push(Arc::new(w))
                }
                Err(e) => report.inconclusive.push(format!("workload failed to run: {e}")),
            }
        }
    }
    if mode == "chain" {
        // replace the epoch-1 workloads by epoch-2 workloads started from a sample of their crash images
        let per = args.num("chain", 6) as usize;
        let mut next: Vec<Arc<Workload>> = Vec::new();
        for w in &wls {
            let mut rng = Rng::derive(args.seed, w.index, 0xc4a1);
            // prefer cuts where a newer generation is durable but its predecessor not yet retired
            let n = w.events.len();
            let mut cuts: Vec<usize> = (w.open_end..=n).filter(|&c| matches!(w.events.get(c), Some(Ev::W { .. })) || c == n).collect();
            rng.shuffle(&mut cuts);
            // images on which a key has two generations on the device (newer durable, older not yet
            // retired) go first: that is where recovery has to clean up
            let (dups, rest): (Vec<usize>, Vec<usize>) = cuts.into_iter().partition(|&c| {
                let image = crashimg::build(&w.base, &w.events, &Recipe { cut: c, keep: crashimg::volatile(&w.events, c), tear: None });
                indep::scan(&image, None, true).map(|s| s.heads.len() > s.records.len()).unwrap_or(false)
            });
            report.count("epoch1_cuts_with_duplicate_generations", dups.len() as u64);
            let mut cuts: Vec<usize> = dups.into_iter().take(per - per / 3).collect();
            cuts.extend(rest.into_iter().take(per - cuts.len()));
            let results: Vec<Result<Workload, String>> = std::thread::scope(|s| {
                let hs: Vec<_> = cuts
                    .iter()
                    .enumerate()
                    .map(|(i, &c)| {
                        let dir = dir.clone();
                        let w = w.clone();
                        let mut rr = Rng::derive(args.seed, w.index, 0x77 + i as u64);
                        s.spawn(move || {
                            let recipes = crashimg::recipes_for_cut(&w.events, c, &mut rr, 2, 0);
                            let all = Recipe { cut: c, keep: crashimg::volatile(&w.events, c), tear: None };
                            let recipe = if i % 3 != 2 { all } else { recipes.into_iter().last().unwrap_or(all) };
                            let image = crashimg::build(&w.base, &w.events, &recipe);
                            run_epoch2(&w, image, args.seed, i as u64, &dir, ops)
                        })
                    })
                    .collect();
                hs.into_iter().map(|h| h.join().unwrap_or_else(|_| Err("epoch-2 panicked".into()))).collect()
            });
            for r in results {
                match r {
                    Ok(w2) => next.push(Arc::new(w2)),
                    Err(e) if e.contains("open") => report.count("epoch2_open_failed", 1),
                    Err(e) => report.inconclusive.push(e),
                }
            }
        }
        report.count("epoch1_workloads", wls.len() as u64);
        wls = next;
    }
    hub().set_sched(None);
    for (point, arrivals, sleeps, exercised) in ctl.summary() {
        if arrivals > 0 {
            report.count(&format!("sched_{point}_arrivals"), arrivals);
            report.count(&format!("sched_{point}_perturbed"), sleeps);
            report.count(&format!("sched_{point}_exercised"), exercised);
        }
    }
    report.count("hostile_values_with_predicted_landing_sector", HOSTILE_PREDICTED.load(Ordering::Relaxed));
    let mut shapes = HashSet::new();
    for w in &wls {
        report.count("workloads", 1);
        report.count("trace_events", w.events.len() as u64);
        report.count("acks", w.acks.len() as u64);
        report.count(if w.uring { "workloads_io_uring" } else { "workloads_sync_io" }, 1);
        report.count(&format!("workloads_v{}", w.cfg.version), 1);
        shapes.insert(fnv(crashimg::trace_shape(&w.events).as_bytes()));
    }
    report.count("distinct_trace_shapes", shapes.len() as u64);
    if let Some(w) = wls.first() {
        report.sample(json!({"workload": w.index, "config": w.cfg.label(), "data_blocks": w.cfg.blocks - 16, "trace_shape": crashimg::trace_shape(&w.events).chars().take(160).collect::<String>(), "client_log_head": w.log.iter().take(10).collect::<Vec<_>>(), "acks": w.acks}));
    }

    // phase 2: recipes
    let mut jobs: Vec<Job> = Vec::new();
    for w in &wls {
        let mut rng = Rng::derive(args.seed, w.index, 0x1111);
        let n = w.events.len();
        let first_ack = w.acks.iter().map(|a| a.1).min().unwrap_or(n);
        let lo = if mode == "ack" { first_ack } else { 0 };
        let mut cuts: Vec<usize> = (lo..=n).collect();
        if cuts.len() > max_cuts {
            // keep every fsync-adjacent cut, sample the rest
            let mut keep: Vec<usize> = cuts.iter().cloned().filter(|&c| c == n || c == lo || matches!(w.events.get(c), Some(Ev::Fb { .. }) | Some(Ev::Fe { .. })) || (c > 0 && matches!(w.events.get(c - 1), Some(Ev::Fe { .. })))).collect();
            let mut rest: Vec<usize> = cuts.iter().cloned().filter(|c| !keep.contains(c)).collect();
            rng.shuffle(&mut rest);
            rest.truncate(max_cuts.saturating_sub(keep.len().min(max_cuts)));
            keep.extend(rest);
            if keep.len() > max_cuts * 2 {
                rng.shuffle(&mut keep);
                keep.truncate(max_cuts * 2);
            }
            keep.sort();
            keep.dedup();
            cuts = keep;
        }
        report.count("cuts", cuts.len() as u64);
        for c in cuts {
            for recipe in crashimg::recipes_for_cut(&w.events, c, &mut rng, 4, if thorough { 3 } else { 1 }) {
                jobs.push(Job { w: w.clone(), recipe });
            }
        }
    }
    report.count("recipes", jobs.len() as u64);

    // phase 3: recover + judge in parallel
    let queue = Arc::new(Mutex::new(jobs));
    let merged = Arc::new(Mutex::new(Report::new("crash", "")));
    let seen = Arc::new(Mutex::new(HashSet::<u64>::new()));
    let stop = Arc::new(AtomicBool::new(false));
    let idem = mode == "idem";
    let partition_only = mode == "partition";
    let known = args.known();
    let mut handles = Vec::new();
    for t in 0..threads {
        let (queue, merged, seen, stop, dir, known) = (queue.clone(), merged.clone(), seen.clone(), stop.clone(), dir.clone(), known.clone());
        let seed = args.seed;
        handles.push(std::thread::spawn(move || {
            let mut local = Report::new("crash", "");
            let mut n = 0u64;
            loop {
                if stop.load(Ordering::Relaxed) {
                    break;
                }
                let Some(job) = queue.lock().pop() else { break };
                let w = &job.w;
                let image = crashimg::build(&w.base, &w.events, &job.recipe);
                let h = fnv_mix(fnv(&image), w.index);
                // the same bytes judged at a different cut have a different admissible window, so key on (image, cut-class)
                let ack_class = w.acks.iter().filter(|(_, r, _)| *r <= job.recipe.cut).count() as u64;
                let hist_class = w.hist.values().map(|h| h.iter().filter(|e| e.inv < job.recipe.cut).count() as u64).fold(0u64, fnv_mix);
                if !seen.lock().insert(fnv_mix(fnv_mix(h, ack_class), hist_class)) {
                    local.count("duplicate_images_skipped", 1);
                    continue;
                }
                n += 1;
                let path = format!("{dir}/img-{t}-{n}.feox");
                local.evaluations += 1;
                if job.recipe.tear.is_some() {
                    local.count("torn_images", 1);
                }
                let v = crashimg::volatile(&w.events, job.recipe.cut);
                if !v.is_empty() && job.recipe.keep.len() < v.len() && !job.recipe.keep.is_empty() {
                    local.count("partially_applied_images", 1);
                }
                if job.recipe.cut <= w.open_end {
                    local.count("images_cut_inside_first_open", 1);
                }
                let replay = |extra: serde_json::Value| {
                    json!({"engine": "crash", "mode": if idem { "idem" } else { "all" }, "seed": seed, "workload": w.index, "config": w.cfg.label(), "device_blocks": w.cfg.blocks,
                           "image": crashimg::describe(&w.events, &job.recipe), "trace_shape": crashimg::trace_shape(&w.events), "acks": w.acks,
                           "client_log": w.log, "detail": extra,
                           "events_before_cut": crashimg::digest(&w.events, job.recipe.cut.saturating_sub(80), job.recipe.cut + 4)})
                };
                if idem {
                    match idem_check(w, &job.recipe, &image, &path, &mut local, seed) {
                        Ok(()) => {}
                        Err((sig, msg)) => {
                            local.violation(sig, msg, replay(json!(null)));
                        }
                    }
                    let _ = std::fs::remove_file(&path);
                    continue;
                }
                match recover_image(&image, &path, w.cfg.version, false, false) {
                    Err(e) => {
                        let sig = format!("crash:reopen-failed:{}", e.split('(').next().unwrap_or(""));
                        let early = job.recipe.cut <= w.open_end + 6;
                        local.violation(
                            if early && w.cfg.version >= 3 { format!("{sig}:fresh-device") } else { sig },
                            format!("crash image cannot be reopened: {e}"),
                            replay(json!({"m6": indep::scan(&image, None, true).map(|s| s.records.len()).map_err(|e| e)})),
                        );
                    }
                    Ok((rec, _)) if rec.acct.is_err() => {
                        local.violation("recovered:acct", format!("store recovered from a crash image: {}", rec.acct.as_ref().unwrap_err()), replay(json!(null)));
                    }
                    Ok((rec, _)) if partition_only => {
                        // C05: the store obtained by recovery from any crash image is exactly partitioned
                        match &rec.partition {
                            Ok((live, _free)) => {
                                local.count("recovered_partitions_checked", 1);
                                if *live > 0 {
                                    local.nontrivial.insert(h);
                                }
                            }
                            Err((sig, msg)) => local.violation(format!("recovered:{sig}"), format!("store recovered from a crash image violates the space partition: {msg}"), replay(json!(null))),
                        }
                    }
                    Ok((rec, _)) => match judge(w, &job.recipe, &rec) {
                        Ok(nontrivial) => {
                            if nontrivial {
                                local.nontrivial.insert(h);
                            }
                            // second opinion: the independent reader must see the same contents
                            match indep::scan(&image, None, true) {
                                Ok(scan) => {
                                    let same = scan.records.len() == rec.dump.len()
                                        && scan.records.iter().all(|(k, r)| rec.dump.get(k).is_some_and(|d| d.ts == r.timestamp && d.expiry == r.expiry && d.value.as_ref().ok() == Some(&r.value)));
                                    if same {
                                        local.count("m6_agreements", 1);
                                    } else {
                                        local.count("m6_disagreements", 1);
                                        local.inconclusive.push(format!("independent reader disagrees with real recovery on workload {} {:?}", w.index, job.recipe));
                                    }
                                }
                                Err(e) => {
                                    local.count("m6_unreadable", 1);
                                    local.inconclusive.push(format!("independent reader rejects an image the store opened (workload {} cut {}): {e}", w.index, job.recipe.cut));
                                }
                            }
                        }
                        Err((sig, msg)) => {
                            local.violation(sig, msg, replay(json!({"recovered": rec.dump.iter().map(|(k, d)| format!("{} ts {} {:?}", hex(k), d.ts, d.value.as_ref().map(|v| values::describe(v)))).collect::<Vec<_>>()})));
                        }
                    },
                }
                let _ = std::fs::remove_file(&path);
                if local.violations.iter().filter(|v| !known.contains(&v.sig)).count() >= 3 {
                    stop.store(true, Ordering::Relaxed);
                }
            }
            merged.lock().merge(local);
        }));
    }
    for h in handles {
        if h.join().is_err() {
            report.inconclusive.push("HARNESS-PANIC: a crash judge thread panicked (its results are lost)".into());
        }
    }
    REAPER.wait();
    let m = Arc::try_unwrap(merged).ok().unwrap().into_inner();
    report.merge(m);
    report
}

fn logical(d: &BTreeMap<Vec<u8>, Dumped>) -> BTreeMap<Vec<u8>, (u64, u64, Result<Vec<u8>, String>)> {
    d.iter().map(|(k, v)| (k.clone(), (v.ts, v.expiry, v.value.clone()))).collect()
}

/// C04 on one crash image: (i) reopening again and again gives the same contents,
/// (ii) crashing inside recovery's own repair writes and recovering again gives the
/// contents of the first successful recovery, (iii) recovery writes touch no block of a live record.
fn idem_check(w: &Workload, recipe: &Recipe, image: &[u8], path: &str, local: &mut Report, seed: u64) -> Result<(), (String, String)> {
    let version = w.cfg.version;
    let (first, store) = match recover_image(image, path, version, true, true) {
        Ok(x) => x,
        Err(_) => return Ok(()), // reopen failures are C03's business
    };
    let c1 = logical(&first.dump);
    // recovery's own journal cycles (replay, one per chunk of repairs) obey the same slot / generation discipline
    if let Err(p) = crashimg::journal_discipline(&first.recovery_events, &[]) {
        return Err(("recovery:journal-discipline".into(), format!("during recovery's repair writes: {p}")));
    }
    local.count("recovery_traces_checked_against_the_journal_discipline", 1);
    let rwrites = first.recovery_events.iter().filter(|e| matches!(e, Ev::W { .. })).count();
    if rwrites > 0 {
        local.nontrivial.insert(fnv_mix(fnv(image), 0x1de));
        local.count("images_needing_repair", 1);
        local.count("recovery_write_events", rwrites as u64);
    }
    // (iii) repair writes must avoid live extents
    let live: Vec<(u64, u64)> = first.dump.iter().map(|(k, d)| (d.sector, indep::record_blocks(version, k.len(), d.value.as_ref().map(|v| v.len()).unwrap_or(0)))).collect();
    for ev in &first.recovery_events {
        if let Ev::W { off, data, .. } = ev {
            let b0 = off / 4096;
            let b1 = (off + data.len() as u64).div_ceil(4096);
            if b0 < indep::DATA_START {
                continue;
            }
            if let Some((s, n)) = live.iter().find(|(s, n)| b0 < s + n && *s < b1) {
                return Err(("recovery:write-on-live-record".into(), format!("recovery wrote blocks [{b0},{b1}) which belong to a live record's extent [{s},+{n})")));
            }
        }
    }
    let after_first = {
        drop(store);
        std::fs::read(path).map_err(|e| ("recovery:io".to_string(), e.to_string()))?
    };
    // (i) idempotence over 2 more opens
    let mut img = after_first.clone();
    for round in 2..=3 {
        let (again, st) = recover_image(&img, path, version, false, true).map_err(|e| ("recovery:second-open-failed".to_string(), format!("open #{round} of an unmodified device failed: {e}")))?;
        if logical(&again.dump) != c1 {
            return Err(("recovery:not-idempotent".into(), format!("open #{round} of the same device yields different contents: first {:?} vs now {:?}", summary(&c1), summary(&logical(&again.dump)))));
        }
        drop(st);
        img = std::fs::read(path).map_err(|e| ("recovery:io".to_string(), e.to_string()))?;
        local.count("reopen_comparisons", 1);
    }
    // (ii) crash inside recovery's own writes
    if rwrites > 0 {
        let mut rng = Rng::derive(seed, fnv(image), recipe.cut as u64);
        let n = first.recovery_events.len();
        let mut inner_n = 0u32;
        let mut cuts: Vec<usize> = (0..=n).collect();
        if cuts.len() > 8 {
            rng.shuffle(&mut cuts);
            cuts.truncate(8);
        }
        for c in cuts {
            let mut recipes = crashimg::recipes_for_cut(&first.recovery_events, c, &mut rng, 2, 1);
            if recipes.len() > 4 {
                rng.shuffle(&mut recipes);
                recipes.truncate(4);
            }
            for r in recipes {
                let inner = crashimg::build(image, &first.recovery_events, &r);
                local.count("inner_recovery_crash_images", 1);
                inner_n += 1;
                let ipath = format!("{path}.r{inner_n}");
                let (second, st2) = match recover_image(&inner, &ipath, version, true, true) {
                    Ok(x) => x,
                    Err(e) => return Err(("recovery:restart-failed".into(), format!("after a crash inside recovery ({}), the next open fails: {e}", crashimg::describe(&first.recovery_events, &r)))),
                };
                if logical(&second.dump) != c1 {
                    return Err((
                        "recovery:restart-differs".into(),
                        format!("after a crash inside recovery ({}), the next recovery yields {:?} instead of {:?}", crashimg::describe(&first.recovery_events, &r), summary(&logical(&second.dump)), summary(&c1)),
                    ));
                }
                let _ = std::fs::remove_file(&ipath);
                if let Some(st2) = st2 {
                    REAPER.with_store(st2);
                }
                // nested once more for a sample
                if rng.chance(1, 4) && second.recovery_events.iter().any(|e| matches!(e, Ev::W { .. })) {
                    let n2 = second.recovery_events.len();
                    let c2 = rng.usize_below(n2 + 1);
                    if let Some(r2) = crashimg::recipes_for_cut(&second.recovery_events, c2, &mut rng, 1, 1).into_iter().last() {
                        let inner2 = crashimg::build(&inner, &second.recovery_events, &r2);
                        local.count("nested_recovery_crash_images", 1);
                        let npath = format!("{path}.n{inner_n}");
                        let (third, st3) = recover_image(&inner2, &npath, version, false, true).map_err(|e| ("recovery:nested-restart-failed".to_string(), format!("nested crash inside recovery: next open fails: {e}")))?;
                        if logical(&third.dump) != c1 {
                            return Err(("recovery:nested-restart-differs".into(), format!("nested crash inside recovery yields {:?} instead of {:?}", summary(&logical(&third.dump)), summary(&c1))));
                        }
                        let _ = std::fs::remove_file(&npath);
                        if let Some(st3) = st3 {
                            REAPER.with_store(st3);
                        }
                    }
                }
            }
        }
    }
    Ok(())
}

fn summary(d: &BTreeMap<Vec<u8>, (u64, u64, Result<Vec<u8>, String>)>) -> Vec<String> {
    d.iter().map(|(k, (ts, exp, v))| format!("{}:ts{}:exp{}:{}", hex(k), ts, exp, v.as_ref().map(|v| values::describe(v)).unwrap_or_else(|e| e.clone()))).collect()
}
