//! E-conc, part 2: reuse (C08), memlimit (C13), scan (C14).

use crate::args::Args;
use crate::indep;
use crate::mon::{hub, SchedCtl};
use crate::report::{hex, Report};
use crate::rng::{fnv, fnv_mix, Rng};
use crate::storeutil::{self, err_name, Cfg};
use crate::values::{self, Tag};
use feoxdb::{FeoxError, FeoxStore};
use parking_lot::Mutex;
use serde_json::json;
use std::collections::BTreeMap;
use std::sync::atomic::{AtomicBool, AtomicU64, Ordering};
use std::sync::{Arc, Barrier};

static TICK: AtomicU64 = AtomicU64::new(1);
fn tick() -> u64 {
    TICK.fetch_add(1, Ordering::SeqCst)
}

fn key_id(k: &[u8]) -> u32 {
    (fnv(k) & 0xffff_ffff) as u32
}

/// One write (or delete) by the single writer of a key.
#[derive(Clone, Debug)]
struct W {
    /// Some(seq) = value with that seq, None = deleted
    seq: Option<u32>,
    inv: u64,
    ret: u64,
    /// TTL-only rewrite: same value, new generation
    rewrite: bool,
}

#[derive(Clone, Debug)]
struct R {
    key: usize,
    inv: u64,
    ret: u64,
    /// Ok(bytes) / Err(name)
    res: Result<Vec<u8>, String>,
    how: &'static str,
    from_disk: bool,
}

/// Is reading `seq` (None = not found) admissible for a read over [a,b] given the key's write log?
/// writes are sequential (one writer): state i holds from ret/inv of w_i until w_{i+1}.
fn admissible(ws: &[W], a: u64, b: u64, seen: Option<u32>) -> (bool, usize) {
    // candidate states: index i in 0..=ws.len(), state 0 = initial absent
    let mut window = 0;
    let mut ok = false;
    for i in 0..=ws.len() {
        // state i is visible to the read iff w_i was invoked before the read returned (i==0: always)
        // and w_{i+1} had not completed before the read began
        let started = i == 0 || ws[i - 1].inv < b;
        let superseded = i < ws.len() && ws[i].ret < a;
        if started && !superseded {
            window += 1;
            let state = if i == 0 { None } else { ws[i - 1].seq };
            if state == seen {
                ok = true;
            }
        }
    }
    (ok, window)
}

fn modification_overlaps(ws: &[W], a: u64, b: u64) -> bool {
    ws.iter().any(|w| w.inv < b && w.ret > a)
}

pub fn run_reuse(args: &Args, report: &mut Report) {
    let shard = args.num("shard", 0);
    let thorough = args.thorough();
    let runs = args.num("runs", if thorough { 120 } else { 6 });
    let dir = storeutil::Scratch(storeutil::scratch_dir(&format!("reuse{shard}")));
    for run in 0..runs {
        let rid = run * args.num("shards", 1).max(1) + shard;
        let mut rng = Rng::derive(args.seed, rid, 0x4e05e);
        let data_blocks = *rng.pick(&[24u64, 32, 48, 64, 96]);
        let mut cfg = Cfg::disk(16 + data_blocks);
        cfg.cache = match args.get("cache") {
            Some("1") => true,
            Some("0") => false,
            _ => rng.chance(1, 2),
        };
        cfg.ttl = true;
        cfg.cpus = *rng.pick(&[2usize, 4, 8, 16]);
        let path = format!("{}/reuse-{rid}.feox", dir.0);
        let _ = std::fs::remove_file(&path);
        storeutil::ensure_device(&cfg, &path);
        let mon = hub().watch(&path);
        mon.set_recording(false);
        let store = match storeutil::open(&cfg, Some(&path)) {
            Ok(s) => Arc::new(s),
            Err(e) => {
                report.inconclusive.push(format!("open failed: {e:?}"));
                continue;
            }
        };
        let target = ["read.pinned.unlocked", "read.before_pin", "read.pinned", "read.before_pread", "read.after_pread", "range.entry", "retire.before_markers", "read.before_pin", "retire.before_release", "deferred.before_pread", "flush.before_publish"][rid as usize % 11];
        // a reader held back before it pins (it already holds the record it looked up) meets generations that
        // have been superseded, made durable elsewhere and retired in the meantime
        let both = rid % 11 == 7 || rid % 11 == 1;
        let mut ctl = SchedCtl::new(args.seed ^ rid, 30, 200).target(target, if both { 500 } else { 300 }, if both { 6000 } else if target == "read.before_pin" { 2500 } else { 400 });
        if both {
            // both sides of the retirement hand-over held at once: readers that already hold a record wait in front
            // of the pin while the retirement pass sits between its reader check and its marker write - a pin that
            // is still granted there gets its blocks overwritten
            ctl = ctl.target("retire.before_markers", 900, 5000).target("read.pinned.unlocked", 500, 7000);
        }
        let ctl = Arc::new(ctl);
        hub().set_sched(Some(ctl.clone()));
        let nwriters = 2 + rng.usize_below(2);
        let nreaders = 2 + rng.usize_below(3);
        let keys_per = 2 + rng.usize_below(2);
        let nkeys = nwriters * keys_per;
        // regular keys r00.., then one counter key per writer (r90..): only its writer modifies it, only by
        // atomic_increment, so every result must be exactly the previous one plus the delta even when the base
        // has to be read back from an extent that the flusher offloaded and the churn recycles
        let keys: Arc<Vec<Vec<u8>>> = Arc::new((0..nkeys).map(|i| format!("r{:02}", i).into_bytes()).chain((0..nwriters).map(|w| format!("r9{w}").into_bytes())).collect());
        let nall = nkeys + nwriters;
        // successful self-swaps by readers: they rewrite the generation (not the value), recorded so that a
        // StaleExtent seen by another reader meanwhile is recognised as legitimate
        let rewrites: Arc<Vec<Mutex<Vec<(u64, u64)>>>> = Arc::new((0..nall).map(|_| Mutex::new(Vec::new())).collect());
        let max_blocks = (data_blocks / (nkeys as u64 * 2)).clamp(1, 4);
        let writes_per = if thorough { 260 } else { 160 };
        let stop = Arc::new(AtomicBool::new(false));
        let barrier = Arc::new(Barrier::new(nwriters + nreaders + 1));
        let logs: Arc<Vec<Mutex<Vec<W>>>> = Arc::new((0..nall).map(|_| Mutex::new(Vec::new())).collect());
        let counter_issues: Arc<Mutex<Vec<String>>> = Arc::new(Mutex::new(Vec::new()));
        let mut whandles = Vec::new();
        for w in 0..nwriters {
            let (store, keys, logs, barrier, counter_issues) = (store.clone(), keys.clone(), logs.clone(), barrier.clone(), counter_issues.clone());
            let mut rng = Rng::derive(args.seed, rid, 1000 + w as u64);
            whandles.push(std::thread::spawn(move || {
                let mut seq = vec![0u32; keys.len()];
                let mut present = vec![false; keys.len()];
                let mut counter: i64 = 0;
                barrier.wait();
                for _ in 0..writes_per {
                    let k = w * keys_per + rng.usize_below(keys_per);
                    let key = &keys[k];
                    let roll = rng.below(100);
                    if roll >= 88 {
                        let ck = nkeys + w;
                        let delta = rng.range(1, 3) as i64;
                        let inv = tick();
                        let r = crate::callwatch::watched("atomic_increment", || store.atomic_increment(&keys[ck], delta));
                        let ret = tick();
                        match r {
                            Ok(v) if v == counter + delta => {
                                counter = v;
                                logs[ck].lock().push(W { seq: Some(v as u32), inv, ret, rewrite: false });
                            }
                            Ok(v) => {
                                counter_issues.lock().push(format!("atomic_increment({}, {delta}) by the key's only writer over [{inv}..{ret}] returned {v}, previous result was {counter}", hex(&keys[ck])));
                                counter = v;
                                logs[ck].lock().push(W { seq: Some(v as u32), inv, ret, rewrite: false });
                            }
                            Err(e) => counter_issues.lock().push(format!("atomic_increment({}, {delta}) by the key's only writer failed: {}", hex(&keys[ck]), err_name(&e))),
                        }
                    } else if present[k] && roll < 15 {
                        let inv = tick();
                        let r = store.delete(key);
                        let ret = tick();
                        if r.is_ok() {
                            present[k] = false;
                            logs[k].lock().push(W { seq: None, inv, ret, rewrite: false });
                        }
                    } else if present[k] && roll < 30 {
                        let inv = tick();
                        let r = crate::callwatch::watched("update_ttl", || store.update_ttl(key, 3600 + rng.below(100)));
                        let ret = tick();
                        if r.is_ok() {
                            logs[k].lock().push(W { seq: Some(seq[k]), inv, ret, rewrite: true });
                        }
                    } else {
                        seq[k] += 1;
                        let hl = indep::header_len(3, key.len());
                        let blocks = rng.range(1, max_blocks) as usize;
                        let len = match rng.below(4) {
                            0 => rng.range(22, 200) as usize,
                            1 => blocks * 4096 - hl,
                            2 => blocks * 4096 - hl - rng.range(1, 50) as usize,
                            _ => (blocks * 4096 - hl).saturating_sub(rng.range(50, 3000) as usize).max(22),
                        };
                        let v = values::make(Tag { key_id: key_id(key), writer: w as u16, seq: seq[k] }, len);
                        let inv = tick();
                        let with_ttl = rng.chance(1, 4);
                        let r = crate::callwatch::watched("insert", || if with_ttl { store.insert_with_ttl(key, &v, 7200) } else { store.insert(key, &v) });
                        let ret = tick();
                        match r {
                            Ok(_) => {
                                present[k] = true;
                                logs[k].lock().push(W { seq: Some(seq[k]), inv, ret, rewrite: false });
                            }
                            Err(_) => {
                                seq[k] -= 1;
                            }
                        }
                    }
                    hub().op_done();
                    // pace the writer so that each generation is flushed, offloaded, read from the device,
                    // retired and its extent reused while readers keep going
                    std::thread::sleep(std::time::Duration::from_micros(rng.range(0, 2500)));
                }
            }));
        }
        let mut rhandles = Vec::new();
        for r in 0..nreaders {
            let (store, keys, stop, barrier, rewrites) = (store.clone(), keys.clone(), stop.clone(), barrier.clone(), rewrites.clone());
            let mut rng = Rng::derive(args.seed, rid, 2000 + r as u64);
            rhandles.push(std::thread::spawn(move || {
                let mut out: Vec<R> = Vec::new();
                let mut last_seen: Vec<Option<Vec<u8>>> = vec![None; keys.len()];
                barrier.wait();
                while !stop.load(Ordering::Relaxed) && out.len() < 6000 {
                    let k = rng.usize_below(keys.len());
                    let key = &keys[k];
                    let reads_before = crate::mon::thread_preads();
                    match rng.below(10) {
                        0..=4 => {
                            let inv = tick();
                            let res = store.get(key).map_err(|e| err_name(&e));
                            let ret = tick();
                            if let Ok(v) = &res {
                                last_seen[k] = Some(v.clone());
                            }
                            out.push(R { key: k, inv, ret, res, how: "get", from_disk: crate::mon::thread_preads() > reads_before });
                        }
                        5..=6 => {
                            let inv = tick();
                            let res = store.get_bytes(key).map(|b| b.to_vec()).map_err(|e| err_name(&e));
                            let ret = tick();
                            out.push(R { key: k, inv, ret, res, how: "get_bytes", from_disk: crate::mon::thread_preads() > reads_before });
                        }
                        7..=8 => {
                            let inv = tick();
                            let res = crate::callwatch::watched("range_query", || store.range_query(b"r", b"r99", 100));
                            let ret = tick();
                            match res {
                                Ok(pairs) => {
                                    for (rk, rv) in pairs {
                                        if let Some(idx) = keys.iter().position(|x| *x == rk) {
                                            out.push(R { key: idx, inv, ret, res: Ok(rv), how: "range_query", from_disk: false });
                                        } else {
                                            out.push(R { key: usize::MAX, inv, ret, res: Err(format!("range returned unknown key {}", hex(&rk))), how: "range_query", from_disk: false });
                                        }
                                    }
                                }
                                Err(e) => out.push(R { key: k, inv, ret, res: Err(format!("range error {}", err_name(&e))), how: "range_query_err", from_disk: false }),
                            }
                        }
                        _ if k < nkeys && last_seen[k].is_some() && rng.chance(1, 2) => {
                            // self-swap with a value this reader saw earlier (possibly superseded since): success
                            // means the store found exactly that value current at some point of the call
                            let expected = last_seen[k].clone().unwrap();
                            let inv = tick();
                            let res = crate::callwatch::watched("compare_and_swap", || store.compare_and_swap(key, &expected, &expected));
                            let ret = tick();
                            match res {
                                Ok(true) => {
                                    rewrites[k].lock().push((inv, ret));
                                    out.push(R { key: k, inv, ret, res: Ok(expected), how: "cas_match", from_disk: crate::mon::thread_preads() > reads_before });
                                }
                                Ok(false) | Err(FeoxError::KeyNotFound) | Err(FeoxError::OlderTimestamp) => {}
                                Err(e) => out.push(R { key: k, inv, ret, res: Err(err_name(&e)), how: "cas_match", from_disk: false }),
                            }
                        }
                        _ => {
                            // CAS whose expected value belongs to ANOTHER key: may never succeed
                            let other = (k + 1) % nkeys;
                            let foreign = values::make(Tag { key_id: key_id(&keys[other]), writer: 9, seq: 1 }, 64);
                            let inv = tick();
                            let res = crate::callwatch::watched("compare_and_swap", || store.compare_and_swap(key, &foreign, b"SWAPPED-BY-FOREIGN-EXPECTED-VALUE"));
                            let ret = tick();
                            if let Ok(true) = res {
                                out.push(R { key: k, inv, ret, res: Err("CAS with another key's value as expected value succeeded".into()), how: "cas", from_disk: false });
                            }
                        }
                    }
                    hub().op_done();
                }
                out
            }));
        }
        let flusher = {
            let (store, stop) = (store.clone(), stop.clone());
            let mut rng = Rng::derive(args.seed, rid, 3000);
            std::thread::spawn(move || {
                let mut n = 0u64;
                while !stop.load(Ordering::Relaxed) {
                    let _ = store.flush();
                    n += 1;
                    std::thread::sleep(std::time::Duration::from_micros(rng.range(0, 1500)));
                }
                n
            })
        };
        barrier.wait();
        for h in whandles {
            if h.join().is_err() {
                report.violation("reuse:panic", "writer thread panicked inside the store", json!({"engine": "conc", "mode": "reuse", "seed": args.seed, "run": rid}));
            }
        }
        stop.store(true, Ordering::Relaxed);
        let mut reads: Vec<R> = Vec::new();
        for h in rhandles {
            match h.join() {
                Ok(v) => reads.extend(v),
                Err(_) => report.violation("reuse:panic", "reader thread panicked inside the store", json!({"engine": "conc", "mode": "reuse", "seed": args.seed, "run": rid})),
            }
        }
        let flushes = flusher.join().unwrap_or(0);
        hub().set_sched(None);
        // judge
        let logs: Vec<Vec<W>> = logs.iter().map(|m| m.lock().clone()).collect();
        let replay = |extra: String| json!({"engine": "conc", "mode": "reuse", "seed": args.seed, "run": rid, "config": cfg.label(), "data_blocks": data_blocks, "target_point": target, "detail": extra});
        for r in &reads {
            report.evaluations += 1;
            if r.key == usize::MAX {
                report.violation("reuse:unknown-key", r.res.clone().unwrap_err(), replay(String::new()));
                continue;
            }
            let ws = &logs[r.key];
            if r.key >= nkeys {
                // counter key: 8-byte little-endian value, one of the results its only writer obtained
                match &r.res {
                    Ok(bytes) if bytes.len() == 8 => {
                        let v = i64::from_le_bytes(bytes[..].try_into().unwrap());
                        let (ok, _) = admissible(ws, r.inv, r.ret, Some(v as u32));
                        if !ok || v < 0 || v > u32::MAX as i64 {
                            report.violation("reuse:counter-stale-or-foreign", format!("{} of counter {} over [{}..{}] returned {v}, not admissible: increments {:?}", r.how, hex(&keys[r.key]), r.inv, r.ret, ws.iter().map(|w| (w.seq, w.inv, w.ret)).collect::<Vec<_>>()), replay(String::new()));
                        }
                        if r.from_disk {
                            report.count("counter_reads_from_device", 1);
                        }
                    }
                    Ok(bytes) => report.violation("reuse:not-a-genuine-value", format!("{} of counter {} returned {} bytes: {}", r.how, hex(&keys[r.key]), bytes.len(), values::describe(bytes)), replay(String::new())),
                    Err(name) if name == "KeyNotFound" => {
                        if !admissible(ws, r.inv, r.ret, None).0 {
                            report.violation("reuse:spurious-not-found", format!("{} of counter {} over [{}..{}] answered KeyNotFound after its first increment had returned", r.how, hex(&keys[r.key]), r.inv, r.ret), replay(String::new()));
                        }
                    }
                    Err(name) if name == "StaleExtent" && modification_overlaps(ws, r.inv, r.ret) => report.count("stale_extent_errors", 1),
                    Err(other) => report.violation(format!("reuse:read-error:{}", other.split(' ').next().unwrap_or("")), format!("{} of counter {} failed: {other}", r.how, hex(&keys[r.key])), replay(String::new())),
                }
                continue;
            }
            match &r.res {
                Ok(bytes) => match values::check(bytes) {
                    Err(why) => {
                        report.violation(
                            "reuse:not-a-genuine-value",
                            format!("{} of key {} returned bytes that are not a complete stored value ({why}): {}", r.how, hex(&keys[r.key]), values::describe(bytes)),
                            replay(format!("read interval [{}..{}]", r.inv, r.ret)),
                        );
                    }
                    Ok(tag) => {
                        if tag.key_id != key_id(&keys[r.key]) {
                            report.violation("reuse:other-keys-bytes", format!("{} of key {} returned a value written to another key ({})", r.how, hex(&keys[r.key]), values::describe(bytes)), replay(String::new()));
                            continue;
                        }
                        let (ok, window) = admissible(ws, r.inv, r.ret, Some(tag.seq));
                        if !ok {
                            report.violation(
                                "reuse:stale-or-future-value",
                                format!("{} of key {} over [{}..{}] returned write #{} which is not admissible: writes {:?}", r.how, hex(&keys[r.key]), r.inv, r.ret, tag.seq, ws.iter().map(|w| (w.seq, w.inv, w.ret)).collect::<Vec<_>>()),
                                replay(String::new()),
                            );
                        } else if r.from_disk && window > 1 {
                            report.nontrivial.insert(fnv_mix(fnv_mix(rid, r.inv), r.key as u64));
                        }
                        if r.from_disk {
                            report.count("reads_from_device", 1);
                        }
                    }
                },
                Err(name) if name == "KeyNotFound" => {
                    let (ok, _) = admissible(ws, r.inv, r.ret, None);
                    if !ok {
                        report.violation(
                            "reuse:spurious-not-found",
                            format!("{} of key {} over [{}..{}] answered KeyNotFound although the key was present throughout: writes {:?}", r.how, hex(&keys[r.key]), r.inv, r.ret, ws.iter().map(|w| (w.seq, w.inv, w.ret)).collect::<Vec<_>>()),
                            replay(String::new()),
                        );
                    }
                    report.count("reads_not_found", 1);
                }
                Err(name) if name == "StaleExtent" => {
                    report.count("stale_extent_errors", 1);
                    if !modification_overlaps(ws, r.inv, r.ret) && !rewrites[r.key].lock().iter().any(|(i, t)| *i < r.ret && *t > r.inv) {
                        report.violation("reuse:stale-extent-without-rewrite", format!("{} of key {} answered StaleExtent although the key was not being rewritten during [{}..{}]", r.how, hex(&keys[r.key]), r.inv, r.ret), replay(String::new()));
                    }
                }
                Err(other) => {
                    report.violation(format!("reuse:read-error:{}", other.split(' ').next().unwrap_or("")), format!("{} of key {} failed: {other}", r.how, hex(&keys[r.key])), replay(String::new()));
                }
            }
        }
        for issue in counter_issues.lock().iter().take(3) {
            report.violation("reuse:counter-lost-base", issue.clone(), replay(String::new()));
        }
        report.count("counter_increments", logs[nkeys..].iter().map(|l| l.len() as u64).sum());
        report.count("matching_cas_successes", reads.iter().filter(|r| r.how == "cas_match" && r.res.is_ok()).count() as u64);
        let (pins, pin_checks, pin_violations) = mon.pin_stats();
        report.count("extent_pins_observed", pins);
        report.count("device_writes_checked_against_pins", pin_checks);
        for v in pin_violations.iter().take(3) {
            report.violation("reuse:write-into-pinned-extent", format!("device write overlapped an extent a reader had pinned: {v}"), replay(String::new()));
        }
        report.count("runs", 1);
        report.count("flush_calls", flushes);
        report.count("writes", logs.iter().map(|l| l.len() as u64).sum());
        report.count("ttl_rewrites", logs.iter().map(|l| l.iter().filter(|w| w.rewrite).count() as u64).sum());
        absorb(report, &ctl);
        if report.samples.is_empty() {
            report.sample(json!({"run": rid, "config": cfg.label(), "data_blocks": data_blocks, "writers": nwriters, "readers": nreaders, "keys": nkeys, "reads": reads.len(), "flush_calls": flushes,
                "first_reads": reads.iter().take(6).map(|r| format!("{} {} [{}..{}] -> {}", r.how, hex(&keys[r.key.min(nall - 1)]), r.inv, r.ret, r.res.as_ref().map(|b| values::describe(b)).unwrap_or_else(|e| e.clone()))).collect::<Vec<_>>()}));
        }
        hub().unwatch(&mon);
        drop(store);
        let _ = std::fs::remove_file(&path);
        if report.violations.len() >= 3 {
            break;
        }
    }
}

fn absorb(report: &mut Report, ctl: &SchedCtl) {
    for (point, arrivals, sleeps, exercised) in ctl.summary() {
        if arrivals > 0 {
            report.count(&format!("sched_{point}_arrivals"), arrivals);
            report.count(&format!("sched_{point}_perturbed"), sleeps);
            report.count(&format!("sched_{point}_exercised"), exercised);
        }
    }
}

// ------------------------------------------------------------------ memlimit (C13)

pub fn run_memlimit(args: &Args, report: &mut Report) {
    let shard = args.num("shard", 0);
    let thorough = args.thorough();
    let runs = args.num("runs", if thorough { 400 } else { 24 });
    let dir = storeutil::Scratch(storeutil::scratch_dir(&format!("mem{shard}")));
    for run in 0..runs {
        let rid = run * args.num("shards", 1).max(1) + shard;
        let mut rng = Rng::derive(args.seed, rid, 0x3e3);
        let persistent = rng.chance(1, 3);
        let mut cfg = if persistent { Cfg::disk(16 + 4096) } else { Cfg::memory() };
        // measure overhead on a scratch store
        let overhead = {
            let s = storeutil::open(&Cfg::memory(), None).unwrap();
            s.insert(b"p", b"v").unwrap();
            s.memory_usage() - 2
        };
        let equal_sized = rng.chance(1, 2);
        let vlen = 64usize;
        let klen = 6usize;
        let rec = overhead + klen + vlen;
        let nthreads = 8 + rng.usize_below(9);
        let limit = if equal_sized { rec * (2 + rng.usize_below(nthreads)) + rng.usize_below(rec) } else { rng.range(2000, 20000) as usize };
        cfg.max_memory = Some(limit);
        let path = format!("{}/mem-{rid}.feox", dir.0);
        let store = match storeutil::open(&cfg, if persistent { Some(&path) } else { None }) {
            Ok(s) => Arc::new(s),
            Err(e) => {
                report.inconclusive.push(format!("open failed: {e:?}"));
                continue;
            }
        };
        let ctl = Arc::new(SchedCtl::new(args.seed ^ rid, 10, 100).target("mem.reserved", 500, 300));
        {
            let s = store.clone();
            *ctl.reserved_probe.write() = Some(Arc::new(move || (s.memory_usage(), limit)));
        }
        hub().set_sched(Some(ctl.clone()));
        let stop = Arc::new(AtomicBool::new(false));
        let over: Arc<Mutex<Vec<String>>> = Arc::new(Mutex::new(Vec::new()));
        let samples = Arc::new(AtomicU64::new(0));
        let maxseen = Arc::new(AtomicU64::new(0));
        let maxlive = Arc::new(AtomicU64::new(0));
        let monitor = {
            let (store, stop, over, samples, maxseen, maxlive) = (store.clone(), stop.clone(), over.clone(), samples.clone(), maxseen.clone(), maxlive.clone());
            std::thread::spawn(move || {
                while !stop.load(Ordering::Relaxed) {
                    let u = store.memory_usage();
                    let n = store.len();
                    samples.fetch_add(1, Ordering::Relaxed);
                    maxseen.fetch_max(u as u64, Ordering::Relaxed);
                    maxlive.fetch_max(n as u64, Ordering::Relaxed);
                    if u > limit {
                        over.lock().push(format!("memory_usage() = {u} > limit {limit}"));
                    }
                    // len() and memory_usage() are two independent counters updated one after the other:
                    // a transient disagreement between them while writers run is not what the property
                    // forbids (it speaks of usage vs the limit, and of len() only at quiescence); the
                    // largest value seen is reported, not judged
                    let _ = n;
                    std::hint::spin_loop();
                }
            })
        };
        let barrier = Arc::new(Barrier::new(nthreads));
        let mut handles = Vec::new();
        for t in 0..nthreads {
            let (store, barrier) = (store.clone(), barrier.clone());
            let mut rng = Rng::derive(args.seed, rid, 500 + t as u64);
            handles.push(std::thread::spawn(move || {
                let mut issues: Vec<String> = Vec::new();
                let mut oom = 0u64;
                let mut admitted = 0u64;
                let keys: Vec<Vec<u8>> = (0..3).map(|i| format!("m{t:02}-{i}").into_bytes()).collect();
                let mut cur: Vec<Option<Vec<u8>>> = vec![None; keys.len()];
                barrier.wait();
                for step in 0..120u32 {
                    let i = rng.usize_below(keys.len());
                    let k = &keys[i];
                    match rng.below(10) {
                        0..=5 => {
                            let len = if equal_sized { vlen } else { *rng.pick(&[8usize, 64, 300, 1500, 5000]) };
                            let v = values::make(Tag { key_id: key_id(k), writer: t as u16, seq: step }, len);
                            match crate::callwatch::watched("insert", || store.insert(k, &v)) {
                                Ok(_) => {
                                    cur[i] = Some(v);
                                    admitted += 1;
                                }
                                Err(FeoxError::OutOfMemory) => {
                                    oom += 1;
                                    // a refused write changes nothing
                                    let now = store.get(k).ok();
                                    if now != cur[i] {
                                        issues.push(format!("insert of {} refused with OutOfMemory but the key changed: before {:?} after {:?}", hex(k), cur[i].as_ref().map(|v| values::describe(v)), now.as_ref().map(|v| values::describe(v))));
                                    }
                                }
                                Err(e) => issues.push(format!("unexpected error {e:?}")),
                            }
                        }
                        6..=7 => {
                            if store.delete(k).is_ok() {
                                cur[i] = None;
                            }
                        }
                        8 if !equal_sized => {
                            let ck = format!("c{t:02}").into_bytes();
                            match crate::callwatch::watched("atomic_increment", || store.atomic_increment(&ck, 1)) {
                                Ok(_) => admitted += 1,
                                Err(FeoxError::OutOfMemory) => oom += 1,
                                Err(e) => issues.push(format!("increment: unexpected {e:?}")),
                            }
                        }
                        _ => {
                            if let Some(v) = &cur[i] {
                                let nv = values::make(Tag { key_id: key_id(k), writer: t as u16, seq: 10_000 + step }, if equal_sized { vlen } else { 22 });
                                match crate::callwatch::watched("compare_and_swap", || store.compare_and_swap(k, v, &nv)) {
                                    Ok(true) => cur[i] = Some(nv),
                                    Ok(false) => issues.push(format!("CAS on a privately owned key {} with its current value did not swap", hex(k))),
                                    Err(FeoxError::OutOfMemory) => oom += 1,
                                    Err(e) => issues.push(format!("cas: unexpected {e:?}")),
                                }
                            }
                        }
                    }
                    hub().op_done();
                }
                (issues, oom, admitted, keys, cur)
            }));
        }
        let mut expected: BTreeMap<Vec<u8>, Vec<u8>> = BTreeMap::new();
        let mut ooms = 0;
        for h in handles {
            match h.join() {
                Ok((issues, oom, admitted, keys, cur)) => {
                    ooms += oom;
                    report.count("admitted_writes", admitted);
                    for (k, v) in keys.into_iter().zip(cur) {
                        if let Some(v) = v {
                            expected.insert(k, v);
                        }
                    }
                    for i in issues.into_iter().take(2) {
                        report.violation("mem:refused-write-changed-state", i, json!({"engine": "conc", "mode": "memlimit", "seed": args.seed, "run": rid}));
                    }
                }
                Err(_) => report.violation("mem:panic", "thread panicked", json!({"engine": "conc", "mode": "memlimit", "seed": args.seed, "run": rid})),
            }
        }
        stop.store(true, Ordering::Relaxed);
        let _ = monitor.join();
        hub().set_sched(None);
        report.evaluations += 1;
        report.count("oom_refusals", ooms);
        report.count("monitor_samples", samples.load(Ordering::Relaxed));
        report.count("parked_reservation_samples", ctl.reserved_samples.load(Ordering::Relaxed));
        report.max("max_threads_inside_reservation_window", ctl.max_in_reserved.load(Ordering::Relaxed));
        report.max("max_usage_permille_of_limit", maxseen.load(Ordering::Relaxed) * 1000 / limit as u64);
        let replay = json!({"engine": "conc", "mode": "memlimit", "seed": args.seed, "run": rid, "limit": limit, "threads": nthreads, "equal_sized": equal_sized, "config": cfg.label()});
        for v in over.lock().iter().take(2) {
            report.violation("mem:over-limit", format!("while writers were running: {v}"), replay.clone());
        }
        for v in ctl.reserved_over_limit.lock().iter().take(2) {
            report.violation("mem:over-limit", v.clone(), replay.clone());
        }
        // quiescent exact equality
        if persistent {
            let _ = store.flush();
        }
        let snap = store.verif_snapshot();
        let sum: usize = snap.entries.iter().map(|e| overhead + e.key.len() + e.value_len).sum();
        if store.memory_usage() != sum {
            report.violation("mem:quiescent-mismatch", format!("after all threads joined: memory_usage() = {} but sum over {} live keys = {}", store.memory_usage(), snap.entries.len(), sum), replay.clone());
        }
        if store.len() != snap.entries.len() {
            report.violation("mem:len-mismatch", format!("len() = {} but {} keys live", store.len(), snap.entries.len()), replay.clone());
        }
        let counters = snap.entries.iter().filter(|e| e.key.starts_with(b"c")).count();
        if snap.entries.len() - counters != expected.len() {
            report.violation("mem:keyset", format!("{} data keys live, threads believe {}", snap.entries.len() - counters, expected.len()), replay.clone());
        }
        if ooms > 0 && ctl.max_in_reserved.load(Ordering::Relaxed) >= 2 {
            report.nontrivial.insert(fnv_mix(rid, ooms));
        }
        // drain => zero
        for e in &snap.entries {
            let _ = store.delete(&e.key);
        }
        if store.memory_usage() != 0 || store.len() != 0 {
            report.violation("mem:nonzero-after-drain", format!("memory_usage {} len {} after deleting everything", store.memory_usage(), store.len()), replay.clone());
        }
        if report.samples.is_empty() {
            report.sample(json!({"run": rid, "limit": limit, "record_size": rec, "threads": nthreads, "equal_sized": equal_sized, "oom_refusals": ooms, "max_usage_seen": maxseen.load(Ordering::Relaxed), "max_live": maxlive.load(Ordering::Relaxed), "monitor_samples": samples.load(Ordering::Relaxed)}));
        }
        absorb(report, &ctl);
        drop(store);
        let _ = std::fs::remove_file(&path);
        if report.violations.len() >= 3 {
            break;
        }
    }
}

// ------------------------------------------------------------------ scan (C14)

pub fn run_scan(args: &Args, report: &mut Report) {
    let shard = args.num("shard", 0);
    let thorough = args.thorough();
    let runs = args.num("runs", if thorough { 200 } else { 10 });
    let dir = storeutil::Scratch(storeutil::scratch_dir(&format!("scan{shard}")));
    for run in 0..runs {
        let rid = run * args.num("shards", 1).max(1) + shard;
        let mut rng = Rng::derive(args.seed, rid, 0x5ca9);
        // every third run: a persistent store without cache where two hot churn keys are rewritten and flushed in
        // a tight loop while readers are held back before they pin an extent - the generation a scan looked up is
        // superseded, durable elsewhere and retired before it can be read, again and again, until the read gives
        // up with a stale-extent error in the middle of a scan
        let hammer = rid % 3 == 0;
        let persistent = hammer || rng.chance(1, 2);
        let mut cfg = if persistent { Cfg::disk(16 + 8192) } else { Cfg::memory() };
        cfg.cache = !hammer && rng.chance(1, 2);
        // half of the runs with TTL support: churn threads also change TTLs (update_ttl / persist swap the
        // generation in both indexes just like a write does)
        cfg.ttl = rng.chance(1, 2);
        let ttl = cfg.ttl;
        let path = format!("{}/scan-{rid}.feox", dir.0);
        let store = match storeutil::open(&cfg, if persistent { Some(&path) } else { None }) {
            Ok(s) => Arc::new(s),
            Err(e) => {
                report.inconclusive.push(format!("open failed: {e:?}"));
                continue;
            }
        };
        // stable keys s-0000.. interleaved lexicographically with churn keys s-0000x
        let big = rng.chance(1, 3);
        let nstable = if big { 300 + rng.usize_below(300) } else { 20 + rng.usize_below(60) };
        let stable: Vec<Vec<u8>> = (0..nstable).map(|i| format!("s-{i:04}").into_bytes()).collect();
        let churn: Arc<Vec<Vec<u8>>> = Arc::new((0..nstable).map(|i| format!("s-{i:04}x").into_bytes()).collect());
        // keys deleted before any scan starts: must never appear
        let dead: Vec<Vec<u8>> = (0..nstable / 4).map(|i| format!("s-{:04}d", i * 4).into_bytes()).collect();
        for k in &stable {
            store.insert(k, &values::make(Tag { key_id: key_id(k), writer: 0, seq: 1 }, 40)).unwrap();
        }
        for k in &dead {
            store.insert(k, &values::make(Tag { key_id: key_id(k), writer: 0, seq: 1 }, 40)).unwrap();
        }
        if persistent {
            let _ = store.flush();
        }
        for k in &dead {
            store.delete(k).unwrap();
        }
        let mut ctl = SchedCtl::new(args.seed ^ rid, 10, 50).target("range.entry", if big { 10 } else { 150 }, 100);
        if hammer {
            ctl = ctl.target("read.before_pin", 700, 3000);
        }
        if ttl {
            ctl = ctl.target("ttl.before_enqueue", 300, 300).target("ttl.before_update", 200, 200);
        }
        let ctl = Arc::new(ctl);
        if big {
            // long scans: hold the scanner on the entry at which it re-pins its epoch guard, so that churn threads
            // get to delete / re-create exactly that key (and its neighbours) meanwhile
            ctl.repin_delay_us.store(500, Ordering::Relaxed);
        }
        hub().set_sched(Some(ctl.clone()));
        let stop = Arc::new(AtomicBool::new(false));
        let stale_seen = Arc::new(AtomicU64::new(0));
        let mut hammers = Vec::new();
        if hammer {
            let (hstore, hchurn, hstop) = (store.clone(), churn.clone(), stop.clone());
            hammers.push(std::thread::spawn(move || {
                let (store, churn, stop) = (hstore, hchurn, hstop);
                let mut seq = 0u32;
                while !stop.load(Ordering::Relaxed) {
                    for k in churn.iter().take(2) {
                        seq += 1;
                        let _ = store.insert(k, &values::make(Tag { key_id: key_id(k), writer: 9, seq }, 100));
                        let _ = store.flush();
                    }
                }
            }));
            // evidence that the condition arises at all: point reads of the hot keys that end in a stale-extent error
            let (pstore, pchurn, pstop, pstale) = (store.clone(), churn.clone(), stop.clone(), stale_seen.clone());
            hammers.push(std::thread::spawn(move || {
                let (store, churn, stop, stale_seen) = (pstore, pchurn, pstop, pstale);
                while !stop.load(Ordering::Relaxed) {
                    for k in churn.iter().take(2) {
                        if let Err(FeoxError::StaleExtent) = store.get(k) {
                            stale_seen.fetch_add(1, Ordering::Relaxed);
                        }
                    }
                }
            }));
        }
        let nchurn = 2 + rng.usize_below(3);
        let mut chandles = Vec::new();
        for c in 0..nchurn {
            let (store, churn, stop) = (store.clone(), churn.clone(), stop.clone());
            let mut rng = Rng::derive(args.seed, rid, 700 + c as u64);
            chandles.push(std::thread::spawn(move || {
                let mut n = 0u64;
                let mut seq = 0u32;
                while !stop.load(Ordering::Relaxed) {
                    // churn keys are shared by all churn threads: same-key delete / re-create / update races
                    // are exactly what can make the two indexes drift apart. A small hot subset raises the odds.
                    let i = if rng.chance(1, 2) { rng.usize_below(churn.len().min(6)) } else { rng.usize_below(churn.len()) };
                    let k = &churn[i];
                    seq += 1;
                    match rng.below(10) {
                        0..=5 => {
                            let _ = store.insert(k, &values::make(Tag { key_id: key_id(k), writer: c as u16, seq }, rng.range(22, 300) as usize));
                        }
                        6..=7 => {
                            let _ = store.delete(k);
                        }
                        8 if ttl => {
                            let _ = if rng.chance(1, 2) { store.update_ttl(k, 3600) } else { store.persist(k) };
                        }
                        8 => {
                            let _ = store.delete(k);
                        }
                        _ => {
                            let _ = store.flush();
                        }
                    }
                    n += 1;
                    hub().op_done();
                }
                n
            }));
        }
        let nscan = 2 + rng.usize_below(2);
        let mut shandles = Vec::new();
        let stable = Arc::new(stable);
        let dead = Arc::new(dead);
        for s in 0..nscan {
            let (store, stable, dead, churn) = (store.clone(), stable.clone(), dead.clone(), churn.clone());
            let mut rng = Rng::derive(args.seed, rid, 900 + s as u64);
            let nq = if big { 25 } else { 120 };
            shandles.push(std::thread::spawn(move || {
                let mut issues: Vec<(String, String)> = Vec::new();
                let mut stats = (0u64, 0u64, 0u64, 0u64); // queries, entries, membership checks, crossing re-pin
                for _ in 0..nq {
                    let a = rng.usize_below(stable.len());
                    let b = rng.usize_below(stable.len());
                    let (lo, hi) = (a.min(b), a.max(b));
                    let start = if rng.chance(1, 8) { Vec::new() } else { stable[lo].clone() };
                    let end = if rng.chance(1, 8) { vec![0xff; 4] } else if rng.chance(1, 6) { churn[hi].clone() } else { stable[hi].clone() };
                    let limit = *rng.pick(&[1usize, 3, 10, 100, 300, usize::MAX]);
                    let res = match crate::callwatch::watched("range_query", || store.range_query(&start, &end, limit)) {
                        Ok(r) => r,
                        Err(e) => {
                            issues.push(("scan:error".into(), format!("range_query failed: {e:?}")));
                            continue;
                        }
                    };
                    stats.0 += 1;
                    stats.1 += res.len() as u64;
                    if res.len() > 256 {
                        stats.3 += 1;
                    }
                    if res.len() > limit {
                        issues.push(("scan:limit".into(), format!("{} results for limit {}", res.len(), limit)));
                    }
                    for w in res.windows(2) {
                        if w[0].0 >= w[1].0 {
                            issues.push(("scan:order".into(), format!("keys not strictly ascending: {} then {}", hex(&w[0].0), hex(&w[1].0))));
                        }
                    }
                    for (k, v) in &res {
                        if k.as_slice() < start.as_slice() || k.as_slice() > end.as_slice() {
                            issues.push(("scan:bounds".into(), format!("key {} outside [{}, {}]", hex(k), hex(&start), hex(&end))));
                        }
                        match values::check(v) {
                            Ok(tag) if tag.key_id == key_id(k) => {}
                            Ok(_) => issues.push(("scan:other-keys-value".into(), format!("key {} returned with another key's value", hex(k)))),
                            Err(why) => issues.push(("scan:not-genuine".into(), format!("key {} returned with bytes that are not a stored value: {why}", hex(k)))),
                        }
                        if dead.contains(k) {
                            issues.push(("scan:phantom".into(), format!("key {} was deleted before the scan began but was returned", hex(k))));
                        }
                    }
                    // completeness over the stable set inside the returned window
                    let window_end: Vec<u8> = if res.len() >= limit { res.last().map(|p| p.0.clone()).unwrap_or_default() } else { end.clone() };
                    if res.len() < limit || !res.is_empty() {
                        for sk in stable.iter() {
                            if sk.as_slice() >= start.as_slice() && sk.as_slice() <= window_end.as_slice() && sk.as_slice() <= end.as_slice() {
                                stats.2 += 1;
                                let n = res.iter().filter(|p| &p.0 == sk).count();
                                if n != 1 {
                                    issues.push((if n == 0 { "scan:missing-stable-key".into() } else { "scan:duplicate".into() }, format!("stable key {} (present and unmodified for the whole query) appears {} times in range_query({}, {}, {}) which returned {} entries ending at {}", hex(sk), n, hex(&start), hex(&end), limit, res.len(), hex(&window_end))));
                                }
                            }
                        }
                    }
                    if issues.len() > 3 {
                        break;
                    }
                }
                (issues, stats)
            }));
        }
        let mut all_issues = Vec::new();
        for h in shandles {
            match h.join() {
                Ok((issues, stats)) => {
                    all_issues.extend(issues);
                    report.evaluations += stats.0;
                    report.count("result_entries", stats.1);
                    report.count("stable_membership_checks", stats.2);
                    report.count("scans_crossing_repin", stats.3);
                }
                Err(_) => all_issues.push(("scan:panic".into(), "scanner thread panicked inside the store".into())),
            }
        }
        stop.store(true, Ordering::Relaxed);
        let mut churn_ops = 0;
        for h in chandles {
            churn_ops += h.join().unwrap_or(0);
        }
        for h in hammers {
            let _ = h.join();
        }
        hub().set_sched(None);
        report.count("churn_ops", churn_ops);
        if hammer {
            report.count("hammer_runs", 1);
            report.count("stale_extent_errors_seen_by_point_reads", stale_seen.load(Ordering::Relaxed));
        }
        report.count("runs", 1);
        let replay = json!({"engine": "conc", "mode": "scan", "seed": args.seed, "run": rid, "config": cfg.label(), "stable_keys": nstable});
        for (sig, msg) in all_issues.into_iter().take(3) {
            report.violation(sig, msg, replay.clone());
        }
        // index agreement at quiescence
        let snap = store.verif_snapshot();
        let mut tree: Vec<(&[u8], usize)> = snap.tree.iter().map(|(k, a)| (k.as_slice(), *a)).collect();
        tree.sort();
        let mut hash: Vec<(&[u8], usize)> = snap.entries.iter().map(|e| (e.key.as_slice(), e.addr)).collect();
        hash.sort();
        if tree != hash {
            report.violation("scan:index-disagree", format!("at quiescence the ordered index has {} entries and the hash index {} (or they point at different records)", tree.len(), hash.len()), replay.clone());
        }
        report.count("index_agreement_checks", 1);
        if let Ok(all) = store.range_query(&[], &[0xff; 8], usize::MAX) {
            let returned: std::collections::BTreeSet<&[u8]> = all.iter().map(|p| p.0.as_slice()).collect();
            for e in &snap.entries {
                if !returned.contains(e.key.as_slice()) {
                    report.violation("scan:live-key-missing-at-quiescence", format!("key {} is live (get works) but a full range query at quiescence does not return it", hex(&e.key)), replay.clone());
                    break;
                }
            }
        }
        // two-writer micro-races, each judged at once: writer A is held for 150 us right after it has swapped the
        // generation (the scheduling points in front of its enqueue step), writer B replaces / deletes the same
        // key meanwhile; when both have returned, the two indexes must hold the same record for that key and a
        // one-key range query must agree with get
        if report.violations.is_empty() {
            let race_ctl = Arc::new(
                SchedCtl::new(args.seed ^ rid, 0, 0)
                    .target("ttl.before_enqueue", 1000, 150)
                    .target("update.before_enqueue", 1000, 150)
                    .target("delete.before_enqueue", 1000, 150)
                    .target("insert.before_enqueue", 1000, 150),
            );
            for i in 0..120u32 {
                let k = format!("race-{:02}", i % 7).into_bytes();
                let _ = store.insert(&k, &values::make(Tag { key_id: key_id(&k), writer: 0, seq: i * 10 }, 50));
                hub().set_sched(Some(race_ctl.clone()));
                let a = {
                    let (store, k) = (store.clone(), k.clone());
                    let kind = i % 6;
                    std::thread::spawn(move || match kind {
                        0 if ttl => {
                            let _ = store.update_ttl(&k, 3600);
                        }
                        1 if ttl => {
                            let _ = store.persist(&k);
                        }
                        2 => {
                            let _ = store.delete(&k);
                        }
                        3 => {
                            let _ = store.insert_bytes(&k, bytes::Bytes::from(values::make(Tag { key_id: key_id(&k), writer: 1, seq: i * 10 + 1 }, 70)));
                        }
                        _ => {
                            let _ = store.insert(&k, &values::make(Tag { key_id: key_id(&k), writer: 1, seq: i * 10 + 2 }, 60));
                        }
                    })
                };
                std::thread::sleep(std::time::Duration::from_micros(40 + (i as u64 % 5) * 20));
                // B runs on this thread; the pause applies to it too, which only widens the overlap
                if i % 4 == 3 {
                    let _ = store.delete(&k);
                } else {
                    let _ = store.insert(&k, &values::make(Tag { key_id: key_id(&k), writer: 2, seq: i * 10 + 3 }, 80));
                }
                let _ = a.join();
                hub().set_sched(None);
                let e = store.verif_entry(&k);
                let snap = store.verif_snapshot();
                let slot = snap.tree.iter().find(|(tk, _)| *tk == k).map(|(_, a)| *a);
                let got = store.get(&k).ok();
                let ranged = store.range_query(&k, &k, 4).ok().and_then(|r| r.into_iter().next().map(|p| p.1));
                report.count("index_micro_races", 1);
                if slot != e.as_ref().map(|e| e.addr) {
                    report.violation("scan:index-disagree", format!("after two writers raced on key {} (first one held 150 us after its swap) the ordered index {} while the hash table {}", hex(&k), if slot.is_some() { "holds a record" } else { "has no entry" }, if e.is_some() { "holds a different / a record" } else { "has no entry" }), replay.clone());
                    break;
                }
                if got != ranged {
                    report.violation("scan:range-differs-from-get", format!("after two writers raced on key {}: get = {:?}, one-key range query = {:?}", hex(&k), got.as_ref().map(|v| values::describe(v)), ranged.as_ref().map(|v| values::describe(v))), replay.clone());
                    break;
                }
            }
        }
        // creation races on FRESH keys: a deleter hammers delete(k) while k is created for the first time (insert /
        // insert_bytes / insert_if_absent / creating increment, in turn). Whichever way each round ends, once both
        // calls have returned the key is either in both indexes or in neither: get and a one-key range query agree
        if report.violations.is_empty() {
            let rounds = if args.thorough() { 12_000u64 } else { 2_500 };
            let round = Arc::new(AtomicU64::new(u64::MAX));
            let done = Arc::new(AtomicU64::new(u64::MAX));
            let acked = Arc::new(AtomicU64::new(u64::MAX));
            let deleted = Arc::new(AtomicU64::new(0));
            let fresh = |r: u64| format!("fresh-{rid}-{r:05}").into_bytes();
            let deleter = {
                let (store, round, done, acked, deleted) = (store.clone(), round.clone(), done.clone(), acked.clone(), deleted.clone());
                std::thread::spawn(move || {
                    let mut next = 0u64;
                    while next < rounds {
                        if round.load(Ordering::Acquire) != next {
                            std::hint::spin_loop();
                            continue;
                        }
                        let k = format!("fresh-{rid}-{next:05}").into_bytes();
                        let mut ok = false;
                        loop {
                            let finished = done.load(Ordering::Acquire) == next;
                            if !ok && store.delete(&k).is_ok() {
                                ok = true;
                                deleted.fetch_add(1, Ordering::Relaxed);
                            }
                            if finished {
                                break;
                            }
                        }
                        acked.store(next, Ordering::Release);
                        next += 1;
                    }
                })
            };
            for r in 0..rounds {
                let k = fresh(r);
                round.store(r, Ordering::Release);
                // let the deleter get going (it must already be inside delete when the creation publishes)
                for _ in 0..(r % 7) * 30 {
                    std::hint::spin_loop();
                }
                let v = values::make(Tag { key_id: key_id(&k), writer: 3, seq: r as u32 }, 40);
                match r % 4 {
                    0 => {
                        let _ = store.insert(&k, &v);
                    }
                    1 => {
                        let _ = store.insert_bytes(&k, bytes::Bytes::from(v));
                    }
                    2 => {
                        let _ = store.insert_if_absent(&k, &v);
                    }
                    _ => {
                        let _ = store.atomic_increment(&k, 5);
                    }
                }
                done.store(r, Ordering::Release);
                while acked.load(Ordering::Acquire) != r {
                    std::hint::spin_loop();
                }
                let got = store.get(&k).ok();
                let ranged = store.range_query(&k, &k, 4).ok().and_then(|p| p.into_iter().next().map(|p| p.1));
                report.count("fresh_key_creation_races", 1);
                if got != ranged {
                    report.violation(
                        "scan:range-differs-from-get",
                        format!("key {} was created for the first time while another thread was deleting it; after both calls returned get = {:?} but a one-key range query = {:?}", hex(&k), got.as_ref().map(|v| values::describe(v)), ranged.as_ref().map(|v| values::describe(v))),
                        replay.clone(),
                    );
                    round.store(u64::MAX - 1, Ordering::Release);
                    break;
                }
                if got.is_some() {
                    let _ = store.delete(&k);
                }
            }
            // release the deleter if the loop ended early
            if !report.violations.is_empty() {
                let from = acked.load(Ordering::Acquire).wrapping_add(1);
                for r in from..rounds {
                    round.store(r, Ordering::Release);
                    done.store(r, Ordering::Release);
                    while acked.load(Ordering::Acquire) != r {
                        std::hint::spin_loop();
                    }
                }
            }
            let _ = deleter.join();
            report.count("fresh_key_deletes_that_found_the_key", deleted.load(Ordering::Relaxed));
        }
        if churn_ops > 0 {
            report.nontrivial.insert(fnv_mix(rid, churn_ops));
        }
        if report.samples.is_empty() {
            report.sample(json!({"run": rid, "config": cfg.label(), "stable_keys": nstable, "churn_threads": nchurn, "scanner_threads": nscan, "churn_ops": churn_ops}));
        }
        absorb(report, &ctl);
        drop(store);
        let _ = std::fs::remove_file(&path);
        if report.violations.len() >= 3 {
            break;
        }
    }
}
