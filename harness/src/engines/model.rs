//! E-model: seeded single-threaded programs over the whole public API, executed on
//! the real store and on the reference model (M1), compared after every call.
//! Serves C01 (all configs), C10 (layout after flush, via `layout`), C11/C12/C13/
//! C14/C16 through focus modes.

use crate::args::Args;
use crate::indep;
use crate::model::{apply_patch, Eff, ExpSrc, Gen, MCfg, Model, Out, Ts, TsSrc, MAX_KEY, NS};
use crate::report::{hex, Report};
use crate::rng::{fnv, fnv_mix, Rng};
use crate::storeutil::{self, err_name, Cfg};
use crate::values::{self, Tag};
use bytes::Bytes;
use feoxdb::FeoxStore;
use serde_json::{json, Value};
use std::collections::{BTreeMap, HashMap};

pub const BASE_NOW: u64 = 1_800_000_000 * NS;

#[derive(Clone, Debug)]
pub enum Op {
    Insert { k: Vec<u8>, v: Vec<u8>, ts: Ts, bytes: bool },
    InsertTtl { k: Vec<u8>, v: Vec<u8>, ttl: u64, ts: Ts, bytes: bool, plain_api: bool },
    Get { k: Vec<u8>, bytes: bool },
    GetSize { k: Vec<u8> },
    Contains { k: Vec<u8> },
    Delete { k: Vec<u8>, ts: Ts },
    Cas { k: Vec<u8>, expected: Vec<u8>, new: Vec<u8>, ts: Ts, ttl: Option<u64> },
    Incr { k: Vec<u8>, delta: i64, ts: Ts, ttl: Option<u64> },
    InsertIfAbsent { k: Vec<u8>, v: Vec<u8> },
    JsonPatch { k: Vec<u8>, patch: Vec<u8>, ts: Ts },
    UpdateTtl { k: Vec<u8>, ttl: u64 },
    Persist { k: Vec<u8> },
    GetTtl { k: Vec<u8> },
    Range { start: Vec<u8>, end: Vec<u8>, limit: usize },
    Flush,
    Reopen { ttl: Option<bool>, cache: Option<bool> },
    Clock { to: u64 },
}

impl Op {
    pub fn name(&self) -> &'static str {
        match self {
            Op::Insert { bytes: false, .. } => "insert",
            Op::Insert { bytes: true, .. } => "insert_bytes",
            Op::InsertTtl { bytes: false, .. } => "insert_with_ttl",
            Op::InsertTtl { bytes: true, .. } => "insert_bytes_with_ttl",
            Op::Get { bytes: false, .. } => "get",
            Op::Get { bytes: true, .. } => "get_bytes",
            Op::GetSize { .. } => "get_size",
            Op::Contains { .. } => "contains_key",
            Op::Delete { .. } => "delete",
            Op::Cas { .. } => "compare_and_swap",
            Op::Incr { .. } => "atomic_increment",
            Op::InsertIfAbsent { .. } => "insert_if_absent",
            Op::JsonPatch { .. } => "json_patch",
            Op::UpdateTtl { .. } => "update_ttl",
            Op::Persist { .. } => "persist",
            Op::GetTtl { .. } => "get_ttl",
            Op::Range { .. } => "range_query",
            Op::Flush => "flush",
            Op::Reopen { .. } => "reopen",
            Op::Clock { .. } => "clock",
        }
    }
    pub fn key(&self) -> Option<&[u8]> {
        match self {
            Op::Insert { k, .. } | Op::InsertTtl { k, .. } | Op::Get { k, .. } | Op::GetSize { k } | Op::Contains { k }
            | Op::Delete { k, .. } | Op::Cas { k, .. } | Op::Incr { k, .. } | Op::InsertIfAbsent { k, .. }
            | Op::JsonPatch { k, .. } | Op::UpdateTtl { k, .. } | Op::Persist { k } | Op::GetTtl { k } => Some(k),
            _ => None,
        }
    }
    pub fn brief(&self) -> String {
        let ts = |t: &Ts| match t {
            Ts::None => "None".to_string(),
            Ts::Zero => "Some(0)".to_string(),
            Ts::Explicit(t) => format!("Some({t})"),
        };
        match self {
            Op::Insert { k, v, ts: t, bytes } => format!("{}({}, {}, {})", if *bytes { "insert_bytes_with_timestamp" } else { "insert_with_timestamp" }, hex(k), values::describe(v), ts(t)),
            Op::InsertTtl { k, v, ttl, ts: t, bytes, plain_api } => format!("{}{}({}, {}, ttl={}, {})", if *bytes { "insert_bytes_with_ttl" } else { "insert_with_ttl" }, if *plain_api { "" } else { "_and_timestamp" }, hex(k), values::describe(v), ttl, ts(t)),
            Op::Get { k, bytes } => format!("{}({})", if *bytes { "get_bytes" } else { "get" }, hex(k)),
            Op::GetSize { k } => format!("get_size({})", hex(k)),
            Op::Contains { k } => format!("contains_key({})", hex(k)),
            Op::Delete { k, ts: t } => format!("delete_with_timestamp({}, {})", hex(k), ts(t)),
            Op::Cas { k, expected, new, ts: t, ttl } => format!("compare_and_swap({}, exp={}, new={}, {}, ttl={:?})", hex(k), values::describe(expected), values::describe(new), ts(t), ttl),
            Op::Incr { k, delta, ts: t, ttl } => format!("atomic_increment({}, {}, {}, ttl={:?})", hex(k), delta, ts(t), ttl),
            Op::InsertIfAbsent { k, v } => format!("insert_if_absent({}, {})", hex(k), values::describe(v)),
            Op::JsonPatch { k, patch, ts: t } => format!("json_patch({}, {}, {})", hex(k), String::from_utf8_lossy(patch), ts(t)),
            Op::UpdateTtl { k, ttl } => format!("update_ttl({}, {})", hex(k), ttl),
            Op::Persist { k } => format!("persist({})", hex(k)),
            Op::GetTtl { k } => format!("get_ttl({})", hex(k)),
            Op::Range { start, end, limit } => format!("range_query({}, {}, {})", hex(start), hex(end), limit),
            Op::Flush => "flush()".into(),
            Op::Reopen { ttl, cache } => format!("drop + reopen(ttl={ttl:?}, cache={cache:?})"),
            Op::Clock { to } => format!("clock -> base+{}ns", to.wrapping_sub(BASE_NOW)),
        }
    }
}

fn map_err(e: feoxdb::FeoxError) -> Out {
    let name = err_name(&e);
    // map to static strs for the names the model can produce; anything else is kept verbatim via leak-free match
    let s: &'static str = match name.as_str() {
        "InvalidKeySize" => "InvalidKeySize",
        "InvalidValueSize" => "InvalidValueSize",
        "KeyNotFound" => "KeyNotFound",
        "OutOfMemory" => "OutOfMemory",
        "OlderTimestamp" => "OlderTimestamp",
        "TtlNotEnabled" => "TtlNotEnabled",
        "Unsupported" => "Unsupported",
        "InvalidOperation" => "InvalidOperation",
        "JsonPatchError" => "JsonPatchError",
        "StaleExtent" => "StaleExtent",
        "IoError" => "IoError",
        "OutOfSpace" => "OutOfSpace",
        "IndeterminateWrite" => "IndeterminateWrite",
        "CorruptedRecord" => "CorruptedRecord",
        "InvalidRecord" => "InvalidRecord",
        "InvalidRange" => "InvalidRange",
        "ShuttingDown" => "ShuttingDown",
        _ => "OtherError",
    };
    Out::Err(s)
}

pub fn exec(store: &FeoxStore, op: &Op) -> Out {
    match op {
        Op::Insert { k, v, ts, bytes } => {
            let r = if *bytes {
                match ts {
                    Ts::None => store.insert_bytes(k, Bytes::copy_from_slice(v)),
                    _ => store.insert_bytes_with_timestamp(k, Bytes::copy_from_slice(v), ts.api()),
                }
            } else {
                match ts {
                    Ts::None => store.insert(k, v),
                    _ => store.insert_with_timestamp(k, v, ts.api()),
                }
            };
            r.map(Out::Bool).unwrap_or_else(map_err)
        }
        Op::InsertTtl { k, v, ttl, ts, bytes, plain_api } => {
            let r = match (*bytes, *plain_api) {
                (false, true) => store.insert_with_ttl(k, v, *ttl),
                (false, false) => store.insert_with_ttl_and_timestamp(k, v, *ttl, ts.api()),
                (true, true) => store.insert_bytes_with_ttl(k, Bytes::copy_from_slice(v), *ttl),
                (true, false) => store.insert_bytes_with_ttl_and_timestamp(k, Bytes::copy_from_slice(v), *ttl, ts.api()),
            };
            r.map(Out::Bool).unwrap_or_else(map_err)
        }
        Op::Get { k, bytes } => {
            if *bytes {
                store.get_bytes(k).map(|b| Out::Bytes(b.to_vec())).unwrap_or_else(map_err)
            } else {
                store.get(k).map(Out::Bytes).unwrap_or_else(map_err)
            }
        }
        Op::GetSize { k } => store.get_size(k).map(Out::Size).unwrap_or_else(map_err),
        Op::Contains { k } => Out::Bool(store.contains_key(k)),
        Op::Delete { k, ts } => match ts {
            Ts::None => store.delete(k),
            _ => store.delete_with_timestamp(k, ts.api()),
        }
        .map(|_| Out::Unit)
        .unwrap_or_else(map_err),
        Op::Cas { k, expected, new, ts, ttl } => match (ts, ttl) {
            (Ts::None, None) => store.compare_and_swap(k, expected, new),
            (_, None) => store.compare_and_swap_with_timestamp(k, expected, new, ts.api()),
            (Ts::None, Some(t)) => store.compare_and_swap_with_ttl(k, expected, new, *t),
            (_, Some(t)) => store.compare_and_swap_with_timestamp_and_ttl(k, expected, new, ts.api(), *t),
        }
        .map(Out::Bool)
        .unwrap_or_else(map_err),
        Op::Incr { k, delta, ts, ttl } => match (ts, ttl) {
            (Ts::None, None) => store.atomic_increment(k, *delta),
            (_, None) => store.atomic_increment_with_timestamp(k, *delta, ts.api()),
            (Ts::None, Some(t)) => store.atomic_increment_with_ttl(k, *delta, *t),
            (_, Some(t)) => store.atomic_increment_with_timestamp_and_ttl(k, *delta, ts.api(), *t),
        }
        .map(Out::Int)
        .unwrap_or_else(map_err),
        Op::InsertIfAbsent { k, v } => store.insert_if_absent(k, v).map(Out::Bool).unwrap_or_else(map_err),
        Op::JsonPatch { k, patch, ts } => match ts {
            Ts::None => store.json_patch(k, patch),
            _ => store.json_patch_with_timestamp(k, patch, ts.api()),
        }
        .map(|_| Out::Unit)
        .unwrap_or_else(map_err),
        Op::UpdateTtl { k, ttl } => store.update_ttl(k, *ttl).map(|_| Out::Unit).unwrap_or_else(map_err),
        Op::Persist { k } => store.persist(k).map(|_| Out::Unit).unwrap_or_else(map_err),
        Op::GetTtl { k } => store.get_ttl(k).map(Out::Ttl).unwrap_or_else(map_err),
        Op::Range { start, end, limit } => store.range_query(start, end, *limit).map(Out::Pairs).unwrap_or_else(map_err),
        Op::Flush => store.flush().map(|_| Out::Unit).unwrap_or_else(map_err),
        Op::Reopen { .. } | Op::Clock { .. } => Out::Unit,
    }
}

pub fn predict(m: &Model, op: &Op) -> (Out, Vec<Eff>) {
    match op {
        Op::Insert { k, v, ts, .. } => m.insert(k, v, *ts, None),
        Op::InsertTtl { k, v, ttl, ts, plain_api, .. } => m.insert(k, v, if *plain_api { Ts::None } else { *ts }, Some(*ttl)),
        Op::Get { k, .. } => (m.get(k), vec![]),
        Op::GetSize { k } => (m.get_size(k), vec![]),
        Op::Contains { k } => (m.contains(k), vec![]),
        Op::Delete { k, ts } => m.delete(k, *ts),
        Op::Cas { k, expected, new, ts, ttl } => m.cas(k, expected, new, *ts, ttl.unwrap_or(0)),
        Op::Incr { k, delta, ts, ttl } => m.incr(k, *delta, *ts, ttl.unwrap_or(0)),
        Op::InsertIfAbsent { k, v } => m.insert_if_absent(k, v),
        Op::JsonPatch { k, patch, ts } => m.json_patch(k, patch, *ts),
        Op::UpdateTtl { k, ttl } => m.update_ttl(k, *ttl),
        Op::Persist { k } => {
            if !m.cfg.ttl {
                (Out::Err("TtlNotEnabled"), vec![])
            } else {
                m.update_ttl(k, 0)
            }
        }
        Op::GetTtl { k } => (m.get_ttl(k), vec![]),
        Op::Range { start, end, limit } => (m.range(start, end, *limit), vec![]),
        Op::Flush | Op::Reopen { .. } | Op::Clock { .. } => (Out::Unit, vec![]),
    }
}

// ------------------------------------------------------------------ generation

#[derive(Clone, Debug, PartialEq, Eq)]
pub enum Focus {
    All,
    Ttl,
    Ts,
    Mem,
    Range,
    Cache,
    Layout,
}

impl Focus {
    pub fn parse(s: &str) -> Focus {
        match s {
            "ttl" => Focus::Ttl,
            "ts" => Focus::Ts,
            "mem" => Focus::Mem,
            "range" => Focus::Range,
            "cache" => Focus::Cache,
            "layout" => Focus::Layout,
            _ => Focus::All,
        }
    }
}

#[derive(Clone, Debug)]
pub struct ProgSpec {
    pub cfg: Cfg,
    pub seed: u64,
    pub index: u64,
    pub steps: usize,
    pub focus: Focus,
    /// flush after every mutating call
    pub flush_every: bool,
    /// force a flush + reopen at this step
    pub reopen_at: Option<usize>,
    /// allow extreme explicit timestamps (2^62.., u64::MAX-2..)
    pub extreme_ts: bool,
    /// run the independent layout decode (M6) after every flush
    pub layout_check: bool,
    pub prop: String,
}

pub struct Gener {
    rng: Rng,
    keys: Vec<Vec<u8>>,
    bad_keys: Vec<Vec<u8>>,
    json_keys: Vec<Vec<u8>>,
    counter_keys: Vec<Vec<u8>>,
    seq: u32,
    big_budget: usize,
    /// scripted chain played before the random part (built at the first call, when `now` is known)
    script: std::collections::VecDeque<Op>,
    script_kind: u64,
}

fn long_key(fill: u8, len: usize) -> Vec<u8> {
    let mut k = vec![fill; len];
    // make the tail distinctive so prefix-of-each-other relations exist among long keys too
    if len > 8 {
        k[len - 1] = b'z';
    }
    k
}

impl Gener {
    pub fn new(spec: &ProgSpec) -> Self {
        let mut rng = Rng::derive(spec.seed, spec.index, fnv(spec.cfg.label().as_bytes()));
        let pool: Vec<Vec<u8>> = vec![
            b"a".to_vec(), b"a\0".to_vec(), b"ab".to_vec(), b"abc".to_vec(), b"abd".to_vec(), b"b".to_vec(),
            vec![0x00], vec![0x00, 0x00], vec![0xff], vec![0xff, 0xff], vec![0x7f], b"user:1".to_vec(), b"user:10".to_vec(),
            b"user:2".to_vec(), b"user:".to_vec(), b"k".to_vec(), b"key-000".to_vec(), b"key-001".to_vec(), b"key-01".to_vec(),
            b"zz".to_vec(), b"m/1".to_vec(), b"m/2".to_vec(), b"m/10".to_vec(), vec![b'q'; 64], vec![b'q'; 65],
        ];
        let mut idx: Vec<usize> = (0..pool.len()).collect();
        rng.shuffle(&mut idx);
        let n = 8 + rng.usize_below(13);
        let mut keys: Vec<Vec<u8>> = idx.into_iter().take(n).map(|i| pool[i].clone()).collect();
        // long keys around the recoverable limits
        let mut bad_keys = vec![Vec::new(), vec![b'x'; MAX_KEY + 1]];
        for (fill, len) in [(b'L', 4066usize), (b'M', 4067), (b'N', 4074), (b'O', 4075)] {
            if rng.chance(1, 3) {
                let k = long_key(fill, len);
                let ok = !spec.cfg.persistent || len <= 4066 || (spec.cfg.version == 1 && len <= 4074);
                if ok {
                    keys.push(k);
                } else {
                    bad_keys.push(k);
                }
            }
        }
        // memory-only stores accept keys up to 100 KiB: lengths at and above 2^16 do not fit the record's 16-bit
        // key-length field, which some size computations use (always present in memory-accounting programs)
        let always = spec.focus == Focus::Mem && !spec.cfg.persistent;
        for (fill, len, odds) in [(b'H', MAX_KEY, 3u64), (b'G', 65_536usize, 4), (b'F', 70_000usize, 6)] {
            if always || rng.chance(1, odds) {
                let k = long_key(fill, len);
                if spec.cfg.persistent {
                    if len == MAX_KEY {
                        bad_keys.push(k);
                    }
                } else {
                    keys.push(k);
                }
            }
        }
        if spec.focus == Focus::Ts {
            for i in 0..48u32 {
                keys.push(format!("t{i:03}").into_bytes());
            }
        }
        let json_keys = keys.iter().filter(|k| k.len() < 100).take(3).cloned().collect();
        let counter_keys = keys.iter().filter(|k| k.len() < 100).skip(3).take(3).cloned().collect();
        // some timestamp/TTL programs start with a scripted chain that random generation reaches too
        // rarely: keys whose newest generation carries a timestamp ahead of the wall clock and a short
        // TTL, left to expire, then a clean reopen, then automatically timestamped calls on those keys
        let script_kind = if matches!(spec.focus, Focus::Ts | Focus::Ttl) && spec.cfg.ttl && rng.chance(1, 3) {
            1 + rng.below(3)
        } else if matches!(spec.focus, Focus::Ts | Focus::Mem | Focus::All) && spec.cfg.max_memory.is_some() && rng.chance(1, 2) {
            // a write that the memory limit refuses while it carries an explicit timestamp ahead of the clock,
            // followed by automatic writes on the same key
            5
        } else if spec.focus == Focus::Layout && spec.cfg.persistent && spec.cfg.version == 3 && rng.chance(1, 3) {
            // the first record of a fresh device lands in block 16: a value is searched (independent CRC32C) for
            // which the 16-bit fold of the record checksum is ZERO - the documented token is then 1
            10
        } else if spec.focus == Focus::Layout && spec.cfg.persistent && rng.chance(1, 4) {
            // a value of several hundred blocks is written, made durable and retired again: its
            // retirement markers span more than one marker-write chunk
            9
        } else {
            0
        };
        Gener { rng, keys, bad_keys, json_keys, counter_keys, seq: 0, big_budget: 2, script: Default::default(), script_kind }
    }

    fn key(&mut self) -> Vec<u8> {
        if self.rng.chance(1, 40) {
            return self.rng.pick(&self.bad_keys).clone();
        }
        self.rng.pick(&self.keys).clone()
    }

    fn key_id(&self, k: &[u8]) -> u32 {
        (fnv(k) & 0xffff_ffff) as u32
    }

    fn value(&mut self, spec: &ProgSpec, k: &[u8]) -> Vec<u8> {
        self.seq += 1;
        let tag = Tag { key_id: self.key_id(k), writer: 0, seq: self.seq };
        let hl = indep::header_len(spec.cfg.version, k.len());
        let edge = |blocks: usize, d: i64| -> usize { ((blocks * 4096) as i64 - hl as i64 + d).max(1) as usize };
        let len = match self.rng.below(100) {
            0..=1 => return Vec::new(),
            2..=3 => return vec![self.rng.below(256) as u8],
            4..=40 => self.rng.range(22, 64) as usize,
            41..=60 => self.rng.range(65, 2000) as usize,
            61..=75 => edge(1, self.rng.range(0, 2) as i64 - 1),
            76..=88 => edge(self.rng.range(2, 5) as usize, self.rng.range(0, 2) as i64 - 1),
            89..=94 => self.rng.range(4097, 20000) as usize,
            95..=96 if self.big_budget > 0 && spec.focus != Focus::Layout => {
                self.big_budget -= 1;
                *self.rng.pick(&[65536usize, 1 << 20, crate::model::MAX_VALUE])
            }
            97 => return vec![0u8; crate::model::MAX_VALUE + 1],
            _ => self.rng.range(22, 300) as usize,
        };
        if len < values::MIN_LEN {
            return self.rng.bytes(len.max(1));
        }
        values::make(tag, len)
    }

    fn json_doc(&mut self) -> Vec<u8> {
        self.seq += 1;
        format!("{{\"l\":[],\"n\":{},\"w\":\"{}\"}}", self.seq, "x".repeat(self.rng.usize_below(40))).into_bytes()
    }

    fn ts(&mut self, spec: &ProgSpec, m: &Model, k: &[u8]) -> Ts {
        let p = if spec.focus == Focus::Ts { 60 } else { 30 };
        if self.rng.below(100) >= p {
            return if self.rng.chance(1, 10) { Ts::Zero } else { Ts::None };
        }
        let cur = m.keys.get(k).map(|g| g.ts).unwrap_or(m.now);
        let t = match self.rng.below(if spec.extreme_ts { 14 } else { 9 }) {
            0 => self.rng.range(1, 1000),
            1 => cur.saturating_sub(1).max(1),
            2 => cur,
            3 | 4 => cur.saturating_add(1),
            5 => m.now.saturating_sub(NS),
            6 => m.now,
            7 => m.now + NS,
            8 => cur.saturating_add(self.rng.range(2, 1_000_000)),
            9 => (1u64 << 62) + self.rng.below(1000),
            10 => u64::MAX - 2,
            11 => u64::MAX - 1,
            12 => u64::MAX,
            _ => (1u64 << 63) + self.rng.below(1000),
        };
        Ts::Explicit(t)
    }

    fn ttl(&mut self) -> u64 {
        *self.rng.pick(&[0u64, 1, 1, 2, 60, 60, 3600, 1 << 40, u64::MAX])
    }

    fn bound(&mut self) -> Vec<u8> {
        match self.rng.below(10) {
            0 => Vec::new(),
            1 => vec![0xff; 3],
            2 => vec![0x00],
            3 => {
                let mut k = self.rng.pick(&self.keys).clone();
                k.push(0);
                k
            }
            4 => {
                let mut k = self.rng.pick(&self.keys).clone();
                k.pop();
                k
            }
            5 if self.rng.chance(1, 10) => vec![b'x'; MAX_KEY + 1],
            _ => self.rng.pick(&self.keys).clone(),
        }
    }

    fn build_script(&mut self, spec: &ProgSpec, m: &Model) {
        let kind = std::mem::take(&mut self.script_kind);
        let now = m.now;
        if kind == 5 {
            let limit = spec.cfg.max_memory.unwrap_or(1000);
            for round in 0..4u64 {
                let k = self.rng.pick(&self.keys).clone();
                let future = Ts::Explicit(now + (5000 + round) * NS);
                if round >= 2 {
                    // a plain UPDATE of an existing key (slice / Bytes entry point) that the limit refuses while it
                    // carries a timestamp ahead of the clock; afterwards an automatic write, and an explicit one
                    // that lies between the wall clock and the refused timestamp (must be accepted)
                    let small = b"a-small-value-a-small-value".to_vec();
                    self.script.push_back(Op::Insert { k: k.clone(), v: small, ts: Ts::None, bytes: false });
                    self.script.push_back(Op::Insert { k: k.clone(), v: vec![b'U'; limit + 64], ts: future, bytes: round == 3 });
                    let v = self.value(spec, &k);
                    self.script.push_back(Op::Insert { k: k.clone(), v, ts: Ts::None, bytes: false });
                    let v = self.value(spec, &k);
                    self.script.push_back(Op::Insert { k: k.clone(), v, ts: Ts::Explicit(now + (100 + round) * NS), bytes: false });
                    self.script.push_back(Op::Get { k, bytes: false });
                    continue;
                }
                if round == 0 {
                    let small = self.value(spec, &k);
                    let small = if small.is_empty() || small.len() > 200 { b"a-small-value-a-small-value".to_vec() } else { small };
                    self.script.push_back(Op::Insert { k: k.clone(), v: small.clone(), ts: Ts::None, bytes: false });
                    self.script.push_back(Op::Cas { k: k.clone(), expected: small, new: vec![b'G'; limit + 64], ts: future, ttl: None });
                } else {
                    self.script.push_back(Op::Insert { k: k.clone(), v: br#"{"l":[],"n":1}"#.to_vec(), ts: Ts::None, bytes: false });
                    let patch = format!(r#"[{{"op":"add","path":"/big","value":"{}"}}]"#, "x".repeat(limit + 64));
                    self.script.push_back(Op::JsonPatch { k: k.clone(), patch: patch.into_bytes(), ts: future });
                }
                let v = self.value(spec, &k);
                self.script.push_back(Op::Insert { k: k.clone(), v, ts: Ts::None, bytes: false });
                self.script.push_back(Op::Incr { k: self.rng.pick(&self.keys).clone(), delta: 1, ts: Ts::None, ttl: None });
                self.script.push_back(Op::Get { k, bytes: false });
            }
            return;
        }
        if kind == 10 {
            let k = b"zero-fold".to_vec();
            let ts = now + 7;
            for i in 0..400_000u32 {
                let v = format!("value-whose-record-checksum-folds-to-zero-{i:08}").into_bytes();
                let rec = crate::indep::encode_record(3, &k, &v, ts, 0, 16);
                if crate::indep::record_token_raw_fold(16, &rec) == 0 {
                    self.script.push_back(Op::Insert { k: k.clone(), v, ts: Ts::Explicit(ts), bytes: false });
                    self.script.push_back(Op::Flush);
                    self.script.push_back(Op::Get { k: k.clone(), bytes: false });
                    self.script.push_back(Op::Reopen { ttl: None, cache: None });
                    self.script.push_back(Op::Get { k, bytes: false });
                    break;
                }
            }
            return;
        }
        if kind == 9 {
            let k = self.rng.pick(&self.keys).clone();
            self.seq += 1;
            let blocks = *self.rng.pick(&[257usize, 300, 513, 600]);
            let v = values::make(Tag { key_id: self.key_id(&k), writer: 0, seq: self.seq }, blocks * 4096 - 2000);
            self.script.push_back(Op::Insert { k: k.clone(), v, ts: Ts::None, bytes: self.rng.chance(1, 2) });
            self.script.push_back(Op::Flush);
            if self.rng.chance(1, 2) {
                self.script.push_back(Op::Delete { k: k.clone(), ts: Ts::None });
            } else {
                let v = self.value(spec, &k);
                self.script.push_back(Op::Insert { k: k.clone(), v, ts: Ts::None, bytes: false });
            }
            self.script.push_back(Op::Flush);
            self.script.push_back(Op::Get { k, bytes: false });
            return;
        }
        let ahead = *self.rng.pick(&[3 * NS, 3600 * NS, 1u64 << 58]);
        let ks: Vec<Vec<u8>> = (0..3).map(|_| self.rng.pick(&self.keys).clone()).collect();
        for (i, k) in ks.iter().enumerate() {
            let v = self.value(spec, k);
            match (kind + i as u64) % 3 {
                0 => self.script.push_back(Op::InsertTtl { k: k.clone(), v, ttl: 1, ts: Ts::Explicit(now + ahead + i as u64), bytes: false, plain_api: false }),
                1 => {
                    self.script.push_back(Op::Insert { k: k.clone(), v, ts: Ts::Explicit(now + ahead + i as u64), bytes: false });
                    self.script.push_back(Op::UpdateTtl { k: k.clone(), ttl: 1 });
                }
                _ => {
                    self.script.push_back(Op::Incr { k: k.clone(), delta: 1, ts: Ts::Explicit(now + ahead + i as u64), ttl: Some(2) });
                    self.script.push_back(Op::UpdateTtl { k: k.clone(), ttl: 1 });
                }
            }
        }
        if self.rng.chance(1, 2) {
            self.script.push_back(Op::Flush);
        }
        self.script.push_back(Op::Clock { to: now + 4 * NS });
        if spec.cfg.persistent {
            self.script.push_back(Op::Reopen { ttl: None, cache: None });
        }
        for k in &ks {
            let v = self.value(spec, k);
            self.script.push_back(match self.rng.below(5) {
                0 => Op::Insert { k: k.clone(), v, ts: Ts::None, bytes: false },
                1 => Op::Incr { k: k.clone(), delta: 2, ts: Ts::None, ttl: None },
                2 => Op::InsertIfAbsent { k: k.clone(), v },
                3 => Op::InsertTtl { k: k.clone(), v, ttl: 60, ts: Ts::None, bytes: true, plain_api: true },
                _ => Op::Delete { k: k.clone(), ts: Ts::None },
            });
            self.script.push_back(Op::Get { k: k.clone(), bytes: false });
        }
    }

    pub fn next(&mut self, spec: &ProgSpec, m: &Model) -> Op {
        if self.script_kind != 0 {
            self.build_script(spec, m);
        }
        if let Some(op) = self.script.pop_front() {
            return op;
        }
        let focus = &spec.focus;
        // weights: [insert, insert_ttl, get, get_size/contains, delete, cas, incr, iia, patch, update_ttl/persist, get_ttl, range, flush, reopen, clock]
        let w: [u64; 15] = match focus {
            Focus::All | Focus::Layout => [16, 8, 14, 4, 8, 7, 6, 4, 5, 5, 2, 6, 6, 1, 8],
            Focus::Ttl => [8, 18, 14, 3, 5, 6, 6, 3, 4, 12, 5, 5, 4, 1, 18],
            Focus::Ts => [18, 6, 6, 2, 12, 9, 9, 5, 7, 6, 1, 2, 5, 2, 6],
            Focus::Mem => [22, 6, 5, 3, 12, 8, 8, 6, 6, 4, 1, 2, 4, 1, 6],
            Focus::Range => [14, 6, 4, 2, 10, 3, 3, 3, 2, 4, 1, 30, 5, 1, 8],
            Focus::Cache => [12, 6, 24, 2, 7, 8, 5, 3, 4, 6, 1, 8, 12, 1, 6],
        };
        let total: u64 = w.iter().sum();
        let mut r = self.rng.below(total);
        let mut choice = 0;
        for (i, wi) in w.iter().enumerate() {
            if r < *wi {
                choice = i;
                break;
            }
            r -= wi;
        }
        match choice {
            0 => {
                let k = self.key();
                let v = if self.json_keys.contains(&k) && self.rng.chance(2, 3) {
                    self.json_doc()
                } else if self.counter_keys.contains(&k) && self.rng.chance(1, 2) {
                    (self.rng.next_u64() as i64 >> 20).to_le_bytes().to_vec()
                } else {
                    self.value(spec, &k)
                };
                let ts = self.ts(spec, m, &k);
                Op::Insert { k, v, ts, bytes: self.rng.chance(1, 3) }
            }
            1 => {
                let k = self.key();
                let v = self.value(spec, &k);
                let plain_api = self.rng.chance(1, 2);
                let ts = if plain_api { Ts::None } else { self.ts(spec, m, &k) };
                Op::InsertTtl { k, v, ttl: self.ttl(), ts, bytes: self.rng.chance(1, 3), plain_api }
            }
            2 => Op::Get { k: self.key(), bytes: self.rng.chance(1, 3) },
            3 => {
                if self.rng.chance(1, 2) {
                    Op::GetSize { k: self.key() }
                } else {
                    Op::Contains { k: self.key() }
                }
            }
            4 => {
                let k = self.key();
                let ts = self.ts(spec, m, &k);
                Op::Delete { k, ts }
            }
            5 => {
                let k = self.key();
                let expected = match m.keys.get(&k) {
                    Some(g) if self.rng.chance(3, 4) => g.value.clone(),
                    _ => self.value(spec, &k),
                };
                // now and then a self-swap (new == expected): still a write - it takes a new timestamp and
                // replaces the TTL
                let new = if self.rng.chance(1, 6) { expected.clone() } else { self.value(spec, &k) };
                let ts = self.ts(spec, m, &k);
                let ttl = if self.rng.chance(1, 4) { Some(self.ttl()) } else { None };
                Op::Cas { k, expected, new, ts, ttl }
            }
            6 => {
                let k = if self.rng.chance(4, 5) && !self.counter_keys.is_empty() { self.rng.pick(&self.counter_keys).clone() } else { self.key() };
                let delta = match self.rng.below(8) {
                    0 => i64::MAX,
                    1 => i64::MIN,
                    2 => 0,
                    _ => self.rng.range(0, 2000) as i64 - 1000,
                };
                let ts = self.ts(spec, m, &k);
                let ttl = if self.rng.chance(1, 4) { Some(self.ttl()) } else { None };
                Op::Incr { k, delta, ts, ttl }
            }
            7 => {
                let k = self.key();
                let v = self.value(spec, &k);
                Op::InsertIfAbsent { k, v }
            }
            8 => {
                let k = if self.rng.chance(4, 5) && !self.json_keys.is_empty() { self.rng.pick(&self.json_keys).clone() } else { self.key() };
                self.seq += 1;
                let patch = match self.rng.below(8) {
                    0 => b"not json".to_vec(),
                    1 => br#"[{"op":"test","path":"/n","value":-1}]"#.to_vec(),
                    2 => br#"[{"op":"remove","path":"/w"}]"#.to_vec(),
                    3 => format!(r#"[{{"op":"replace","path":"/n","value":{}}}]"#, self.seq).into_bytes(),
                    _ => format!(r#"[{{"op":"add","path":"/l/-","value":{}}}]"#, self.seq).into_bytes(),
                };
                let ts = self.ts(spec, m, &k);
                Op::JsonPatch { k, patch, ts }
            }
            9 => {
                if self.rng.chance(1, 4) {
                    Op::Persist { k: self.key() }
                } else {
                    Op::UpdateTtl { k: self.key(), ttl: self.ttl() }
                }
            }
            10 => Op::GetTtl { k: self.key() },
            11 => {
                let start = self.bound();
                let end = self.bound();
                let limit = *self.rng.pick(&[0usize, 1, 2, 3, 5, 100, usize::MAX]);
                if self.rng.chance(4, 5) && start > end {
                    Op::Range { start: end, end: start, limit }
                } else {
                    Op::Range { start, end, limit }
                }
            }
            12 => Op::Flush,
            13 if spec.cfg.persistent => {
                let ttl = if spec.cfg.version >= 2 && self.rng.chance(1, 5) { Some(self.rng.chance(1, 2)) } else { None };
                let cache = if self.rng.chance(1, 5) { Some(self.rng.chance(1, 2)) } else { None };
                Op::Reopen { ttl, cache }
            }
            _ => {
                // move the virtual clock: small steps, or exactly around some key's expiry
                let with_expiry: Vec<u64> = m.keys.values().map(|g| g.expiry).filter(|e| *e > m.now && *e < m.now + 100_000 * NS).collect();
                let to = if !with_expiry.is_empty() && self.rng.chance(2, 3) {
                    let e = *self.rng.pick(&with_expiry);
                    match self.rng.below(3) {
                        0 => e - 1,
                        1 => e,
                        _ => e + 1,
                    }
                } else {
                    m.now + *self.rng.pick(&[0u64, 1, 1000, NS, 61 * NS, 3600 * NS])
                };
                Op::Clock { to: to.max(m.now) }
            }
        }
    }
}

// ------------------------------------------------------------------ execution

pub struct Failure {
    pub sig: String,
    pub msg: String,
    pub step: usize,
}

pub struct Runner<'a> {
    pub spec: &'a ProgSpec,
    pub path: Option<String>,
    pub cfg: Cfg,
    pub store: Option<FeoxStore>,
    pub model: Model,
    pub log: Vec<String>,
    pub failed_explicit: Vec<u64>,
    pub max_accepted: u64,
    /// largest timestamp the store has accepted, assigned or recovered so far (explicit, automatic, from disk)
    pub max_seen: u64,
    pub stats: HashMap<(String, &'static str, &'static str), u64>,
    pub auto_checked: u64,
    pub layout_checks: u64,
    pub cache_hits_confirmed: u64,
    pub calls: u64,
    pub boundary_probes: u64,
    pub value_checks: u64,
    /// keys that were given an explicit timestamp >= u64::MAX-1 (deliberately pinned)
    pub pinned: std::collections::HashSet<Vec<u8>>,
    /// some explicit timestamp in [u64::MAX-2^20, u64::MAX) was accepted since (re)open
    pub near_max_accepted: bool,
    /// what a replay needs to regenerate this program
    pub replay_doc: Value,
}

fn residency(store: &FeoxStore, k: &[u8]) -> &'static str {
    match store.verif_entry(k) {
        None => "absent",
        Some(e) if e.resident => {
            if e.sector > 0 { "resident+disk" } else { "resident" }
        }
        Some(e) if e.deferred && e.sector == 0 => "deferred",
        Some(e) if e.sector > 0 => {
            let cached = store.verif_cache().map(|c| c.verif_entries().iter().any(|(ck, _, _, bound, _)| ck == k && *bound)).unwrap_or(false);
            if cached { "cached" } else { "disk" }
        }
        Some(_) => "limbo",
    }
}

impl<'a> Runner<'a> {
    pub fn open(spec: &'a ProgSpec, path: Option<String>) -> Result<Self, String> {
        feoxdb::verif::set_thread_now_ns(BASE_NOW);
        let cfg = spec.cfg.clone();
        let store = storeutil::open(&cfg, path.as_deref()).map_err(|e| format!("open failed: {e:?}"))?;
        // measure the fixed per-record overhead once, on this very store
        store.insert(b"\x01probe", b"p").map_err(|e| format!("probe insert: {e:?}"))?;
        let overhead = store.memory_usage() - b"\x01probe".len() - 1;
        store.delete(b"\x01probe").map_err(|e| format!("probe delete: {e:?}"))?;
        if store.memory_usage() != 0 || store.len() != 0 {
            return Err("store not empty after probe".into());
        }
        let mcfg = MCfg { persistent: cfg.persistent, ttl: cfg.ttl, version: cfg.version, max_memory: cfg.max_memory };
        Ok(Runner {
            spec,
            path,
            cfg,
            store: Some(store),
            model: Model::new(mcfg, overhead, BASE_NOW),
            log: Vec::new(),
            failed_explicit: Vec::new(),
            max_accepted: 0,
            max_seen: 0,
            stats: HashMap::new(),
            auto_checked: 0,
            layout_checks: 0,
            cache_hits_confirmed: 0,
            calls: 0,
            boundary_probes: 0,
            value_checks: 0,
            pinned: Default::default(),
            near_max_accepted: false,
            replay_doc: json!({
                "engine": "model", "config": spec.cfg.label(), "seed": spec.seed, "index": spec.index, "steps": spec.steps,
                "focus": format!("{:?}", spec.focus), "flush_every": spec.flush_every, "reopen_at": spec.reopen_at, "extreme_ts": spec.extreme_ts,
                "property": spec.prop,
            }),
        })
    }

    fn store(&self) -> &FeoxStore {
        self.store.as_ref().unwrap()
    }

    fn fail(&self, step: usize, sig: &str, msg: String) -> Failure {
        Failure { sig: sig.to_string(), msg, step }
    }

    /// Execute one op on both sides and compare. `step` is only for messages.
    pub fn step(&mut self, step: usize, op: &Op) -> Result<(), Failure> {
        self.log.push(op.brief());
        match op {
            Op::Clock { to } => {
                self.model.now = *to;
                feoxdb::verif::set_thread_now_ns(*to);
                return self.compare_state(step, op, None);
            }
            Op::Reopen { ttl, cache } => {
                return self.reopen(step, *ttl, *cache);
            }
            _ => {}
        }
        let res = op.key().map(|k| residency(self.store(), k)).unwrap_or("-");
        let before = self.store().verif_snapshot();
        let hits_before = self.store().stats().cache_hits;
        let (expected, effects) = predict(&self.model, op);
        INFLIGHT.lock().insert(std::thread::current().id(), (std::time::Instant::now(), op.brief(), self.replay_doc.clone()));
        let actual = crate::callwatch::watched(op.name(), || exec(self.store(), op));
        INFLIGHT.lock().remove(&std::thread::current().id());
        self.calls += 1;
        *self.stats.entry((op.name().to_string(), res, expected.class())).or_insert(0) += 1;
        if res == "cached" && matches!(op, Op::Get { .. }) && self.store().stats().cache_hits > hits_before {
            self.cache_hits_confirmed += 1;
        }
        if let Some(k) = op.key() {
            if let Some(g) = self.model.keys.get(k) {
                if g.expiry > 0 && self.model.now.abs_diff(g.expiry) <= 1 {
                    self.boundary_probes += 1;
                }
            }
        }
        // C12: an automatically timestamped call is never refused as older unless the key was
        // deliberately pinned at the maximum by the application
        let op_explicit = match op {
            Op::Insert { ts, .. } | Op::Delete { ts, .. } | Op::Cas { ts, .. } | Op::Incr { ts, .. } | Op::JsonPatch { ts, .. } => ts.explicit(),
            Op::InsertTtl { ts, plain_api: false, .. } => ts.explicit(),
            _ => None,
        };
        if let (Some(k), Some(t)) = (op.key(), op_explicit) {
            if t >= u64::MAX - 1 && !matches!(actual, Out::Err(_)) && !matches!((op, &actual), (Op::Cas { .. }, Out::Bool(false))) {
                self.pinned.insert(k.to_vec());
            }
        }
        if actual == Out::Err("OlderTimestamp") && op_explicit.is_none() {
            let k = op.key().unwrap_or(&[]).to_vec();
            if !self.pinned.contains(&k) {
                let cur = self.model.keys.get(&k).map(|g| g.ts);
                // the one recorded way to get here: an accepted explicit timestamp at the very top of the
                // range saturates the shared clock shard (known finding C12-1); anything else keeps the
                // generic signature and is reported
                let saturated = cur == Some(u64::MAX) && self.max_accepted >= u64::MAX - (1 << 20) && self.max_accepted != u64::MAX
                    || cur == Some(u64::MAX) && self.near_max_accepted;
                let sig = if saturated { "auto-ts:clock-saturated-by-near-max-explicit".to_string() } else { format!("auto-ts:rejected-never-pinned:{}", op.name()) };
                return Err(self.fail(
                    step,
                    &sig,
                    format!("{}: automatically timestamped call refused with OlderTimestamp although the application never gave this key a timestamp >= u64::MAX-1 (key's current timestamp: {:?}; largest explicit timestamp accepted anywhere: {})", op.brief(), cur, self.max_accepted),
                ));
            }
        }
        if expected != actual {
            let sig = format!("model:{}:{}->{}", op.name(), expected.class(), actual.class());
            return Err(self.fail(
                step,
                &sig,
                format!(
                    "{} on {} [{}]: model expects {} but the store returned {} (key state in model: {})",
                    op.brief(),
                    self.cfg.label(),
                    res,
                    expected.brief(),
                    actual.brief(),
                    op.key().and_then(|k| self.model.keys.get(k)).map(|g| format!("ts={} expiry={} len={}", g.ts, g.expiry, g.value.len())).unwrap_or("absent".into())
                ),
            ));
        }
        // failed explicit timestamps must not be absorbed by the clock (C12)
        {
            let explicit = match op {
                Op::Insert { ts, .. } | Op::Delete { ts, .. } | Op::Cas { ts, .. } | Op::Incr { ts, .. } | Op::JsonPatch { ts, .. } => ts.explicit(),
                Op::InsertTtl { ts, plain_api: false, .. } => ts.explicit(),
                _ => None,
            };
            if let Some(t) = explicit {
                let accepted = match (&actual, op) {
                    (Out::Err(_), _) => false,
                    (Out::Bool(false), Op::Cas { .. }) => false,
                    _ => true,
                };
                if accepted {
                    self.max_accepted = self.max_accepted.max(t);
                    self.max_seen = self.max_seen.max(t);
                    if t >= u64::MAX - (1 << 20) && t != u64::MAX {
                        self.near_max_accepted = true;
                    }
                } else {
                    self.failed_explicit.push(t);
                }
            }
        }
        // commit effects, learning automatic timestamps from the store
        for eff in effects {
            match eff {
                Eff::Remove(k) => {
                    self.model.keys.remove(&k);
                }
                Eff::Put { key, value, ts, exp } => {
                    let observed = self.store().verif_entry(&key);
                    let Some(entry) = observed else {
                        return Err(self.fail(step, &format!("model:{}:missing-after-write", op.name()), format!("{}: accepted write but the key is absent afterwards", op.brief())));
                    };
                    let t = match ts {
                        TsSrc::Explicit(t) => {
                            self.max_accepted = self.max_accepted.max(t);
                            self.max_seen = self.max_seen.max(t);
                            t
                        }
                        TsSrc::Auto { floor } => {
                            self.auto_checked += 1;
                            let t = entry.timestamp;
                            let prior = self.model.max_ts.get(&key).copied().unwrap_or(0).max(floor);
                            // a key the application pinned at the top of the range is outside the statement
                            // ("unless the key was deliberately pinned at the maximum timestamp"): once it has
                            // expired, its next generation can only be given u64::MAX again
                            let pinned_at_top = prior == u64::MAX && self.pinned.contains(&key);
                            if t <= prior && !pinned_at_top {
                                return Err(self.fail(
                                    step,
                                    &format!("auto-ts:not-increasing:{}", op.name()),
                                    format!("{}: automatic timestamp {} is not greater than {} (previous generation / accepted timestamp of this key)", op.brief(), t, prior),
                                ));
                            }
                            if t == u64::MAX && !self.pinned.contains(&key) {
                                // the store pinned a key the application never pinned: its next automatic call must fail
                                let sig = if self.near_max_accepted { "auto-ts:clock-saturated-by-near-max-explicit".to_string() } else { format!("auto-ts:assigned-max:{}", op.name()) };
                                return Err(self.fail(
                                    step,
                                    &sig,
                                    format!("{}: the store assigned the automatic timestamp u64::MAX to a key the application never pinned (largest explicit timestamp accepted anywhere: {}); every later automatic call on it is refused as older", op.brief(), self.max_accepted),
                                ));
                            }
                            if t < self.model.now {
                                return Err(self.fail(step, &format!("auto-ts:below-now:{}", op.name()), format!("{}: automatic timestamp {} below current time {}", op.brief(), t, self.model.now)));
                            }
                            // an automatic timestamp is max(time, last timestamp of the clock shard + 1): it can
                            // never lie beyond everything the store has accepted, assigned or recovered so far.
                            // If it does, the clock has absorbed something it must not (a failing call's
                            // explicit timestamp, typically)
                            let bound = self.max_seen.max(self.model.now);
                            if t > bound.saturating_add(1000) {
                                let culprit = self.failed_explicit.iter().filter(|&&f| f <= t && f > bound).max().copied();
                                return Err(self.fail(
                                    step,
                                    "auto-ts:beyond-everything-accepted",
                                    format!(
                                        "{}: automatic timestamp {} lies {} beyond the current time {} and every timestamp accepted, assigned or recovered so far (max {}); explicit timestamp of a call that failed: {:?}",
                                        op.brief(), t, t - bound, self.model.now, self.max_seen, culprit
                                    ),
                                ));
                            }
                            self.max_seen = self.max_seen.max(t);
                            // absorbed failed explicit timestamp?
                            if let Some(&bad) = self.failed_explicit.iter().find(|&&f| f <= t && f > self.model.now.saturating_add(1_000_000 * NS) && f > self.max_accepted.saturating_add(1_000_000)) {
                                return Err(self.fail(
                                    step,
                                    "auto-ts:absorbed-failed-explicit",
                                    format!("{}: automatic timestamp {} >= explicit timestamp {} that was only ever carried by a failing call (largest accepted explicit: {})", op.brief(), t, bad, self.max_accepted),
                                ));
                            }
                            t
                        }
                    };
                    let expiry = match exp {
                        ExpSrc::None => 0,
                        ExpSrc::FromTs(ttl) => crate::model::ttl_add(t, ttl),
                        ExpSrc::Abs(e) => e,
                    };
                    let e = self.model.max_ts.entry(key.clone()).or_insert(0);
                    *e = (*e).max(t);
                    self.model.keys.insert(key, Gen { value, ts: t, expiry });
                }
            }
        }
        let unchanged = matches!(actual, Out::Err(_)) || matches!(op, Op::Get { .. } | Op::GetSize { .. } | Op::Contains { .. } | Op::GetTtl { .. } | Op::Range { .. } | Op::Flush);
        self.compare_state(step, op, if unchanged { Some(&before) } else { None })?;
        if matches!(op, Op::Flush) && self.cfg.persistent {
            self.after_flush(step)?;
        }
        Ok(())
    }

    /// Whole-state comparison without side effects on residency (snapshot based),
    /// plus `get` of the touched key and one rotating key.
    fn compare_state(&mut self, step: usize, op: &Op, before: Option<&feoxdb::core::store::verif_access::VerifSnapshot>) -> Result<(), Failure> {
        let snap = self.store().verif_snapshot();
        // expired generations may legitimately be physically gone already (lazy retire / sweeper)
        let phys: BTreeMap<&[u8], &feoxdb::core::store::verif_access::VerifEntry> = snap.entries.iter().map(|e| (e.key.as_slice(), e)).collect();
        let expired_gone: Vec<Vec<u8>> = self.model.keys.iter().filter(|(k, g)| self.model.expired(g) && !phys.contains_key(k.as_slice())).map(|(k, _)| k.clone()).collect();
        for k in expired_gone {
            self.model.keys.remove(&k);
        }
        if phys.len() != self.model.keys.len() || !self.model.keys.keys().all(|k| phys.contains_key(k.as_slice())) {
            let extra: Vec<String> = phys.keys().filter(|k| !self.model.keys.contains_key(**k)).map(|k| hex(k)).collect();
            let missing: Vec<String> = self.model.keys.keys().filter(|k| !phys.contains_key(k.as_slice())).map(|k| hex(k)).collect();
            return Err(self.fail(step, &format!("state:keyset:{}", op.name()), format!("after {}: key set differs from the model: unexpected {:?}, missing {:?}", op.brief(), extra, missing)));
        }
        for (k, g) in &self.model.keys {
            let e = phys[k.as_slice()];
            if e.timestamp != g.ts || e.ttl_expiry != g.expiry || e.value_len != g.value.len() {
                return Err(self.fail(
                    step,
                    &format!("state:generation:{}", op.name()),
                    format!("after {}: key {} has (ts {}, expiry {}, len {}) but the model has (ts {}, expiry {}, len {})", op.brief(), hex(k), e.timestamp, e.ttl_expiry, e.value_len, g.ts, g.expiry, g.value.len()),
                ));
            }
        }
        // ordered index == hash index (C14 quiescent agreement)
        let mut tree: Vec<(&[u8], usize)> = snap.tree.iter().map(|(k, a)| (k.as_slice(), *a)).collect();
        let sorted = tree.windows(2).all(|w| w[0].0 < w[1].0);
        tree.sort();
        let mut hash: Vec<(&[u8], usize)> = snap.entries.iter().map(|e| (e.key.as_slice(), e.addr)).collect();
        hash.sort();
        if !sorted || tree != hash {
            return Err(self.fail(step, &format!("state:index-disagree:{}", op.name()), format!("after {}: ordered index and hash index disagree (ordered {} entries, hashed {})", op.brief(), tree.len(), hash.len())));
        }
        // accounting (C13)
        let len = self.store().len();
        let mem = self.store().memory_usage();
        if len != self.model.keys.len() {
            return Err(self.fail(step, &format!("acct:len:{}", op.name()), format!("after {}: len() = {} but {} keys are live", op.brief(), len, self.model.keys.len())));
        }
        if mem != self.model.mem_used() {
            return Err(self.fail(step, &format!("acct:memory:{}", op.name()), format!("after {}: memory_usage() = {} but sum(overhead+key+value) = {}", op.brief(), mem, self.model.mem_used())));
        }
        if let Some(limit) = self.cfg.max_memory {
            if mem > limit {
                return Err(self.fail(step, "acct:over-limit", format!("after {}: memory_usage {} exceeds the limit {}", op.brief(), mem, limit)));
            }
        }
        // an error / read-only call must leave every generation in place (same record objects)
        if let Some(before) = before {
            let b: HashMap<&[u8], usize> = before.entries.iter().map(|e| (e.key.as_slice(), e.addr)).collect();
            for e in &snap.entries {
                if let Some(addr) = b.get(e.key.as_slice()) {
                    if *addr != e.addr {
                        return Err(self.fail(step, &format!("state:changed-by-noop:{}", op.name()), format!("{} returned without success but key {} was replaced", op.brief(), hex(&e.key))));
                    }
                }
            }
        }
        // value of the touched key + one rotating key
        let mut probe: Vec<Vec<u8>> = Vec::new();
        if let Some(k) = op.key() {
            if !matches!(op, Op::Get { .. }) {
                probe.push(k.to_vec());
            }
        }
        if !self.model.keys.is_empty() && step % 3 == 0 {
            let i = (step / 3) % self.model.keys.len();
            probe.push(self.model.keys.keys().nth(i).unwrap().clone());
        }
        for k in probe {
            if k.is_empty() || k.len() > MAX_KEY {
                continue;
            }
            self.check_value(step, op, &k)?;
        }
        Ok(())
    }

    fn check_value(&mut self, step: usize, op: &Op, k: &[u8]) -> Result<(), Failure> {
        self.value_checks += 1;
        let expected = self.model.get(k);
        let actual = self.store().get(k).map(Out::Bytes).unwrap_or_else(map_err);
        if expected != actual {
            return Err(self.fail(
                step,
                &format!("state:value:{}", op.name()),
                format!("after {}: get({}) = {} but the model holds {}", op.brief(), hex(k), actual.brief(), expected.brief()),
            ));
        }
        Ok(())
    }

    pub fn full_sweep(&mut self, step: usize, op: &Op) -> Result<(), Failure> {
        let keys: Vec<Vec<u8>> = self.model.keys.keys().cloned().collect();
        for k in keys {
            self.check_value(step, op, &k)?;
        }
        let expected = self.model.range(&[], &vec![0xff; 8], usize::MAX);
        let actual = self.store().range_query(&[], &vec![0xff; 8], usize::MAX).map(Out::Pairs).unwrap_or_else(map_err);
        if expected != actual {
            return Err(self.fail(step, "state:full-range", format!("after {}: full range query {} differs from the model {}", op.brief(), actual.brief(), expected.brief())));
        }
        Ok(())
    }

    fn reopen(&mut self, step: usize, ttl: Option<bool>, cache: Option<bool>) -> Result<(), Failure> {
        let op = Op::Reopen { ttl, cache };
        self.full_sweep(step, &op)?;
        drop(self.store.take());
        if let Some(t) = ttl {
            self.cfg.ttl = t;
            self.model.cfg.ttl = t;
        }
        if let Some(c) = cache {
            self.cfg.cache = c;
        }
        let store = storeutil::open(&self.cfg, self.path.as_deref()).map_err(|e| Failure { sig: "reopen:failed".into(), msg: format!("reopen after a clean drop failed: {e:?}"), step })?;
        self.store = Some(store);
        // recovery feeds the clock with the timestamp of every record it scans, including winners it then
        // drops as expired: what counts as "recovered from disk" is the model's contents before that purge
        let recovered_near_max = self.model.keys.values().any(|g| g.ts >= u64::MAX - (1 << 20) && g.ts != u64::MAX);
        let recovered_max = self.model.keys.values().map(|g| g.ts).max().unwrap_or(0);
        self.pinned = self.model.keys.iter().filter(|(k, g)| g.ts >= u64::MAX - 1 && self.pinned.contains(*k)).map(|(k, _)| k.clone()).collect();
        self.model.reopen();
        self.failed_explicit.clear();
        self.max_accepted = recovered_max;
        self.max_seen = recovered_max;
        self.near_max_accepted = recovered_near_max;
        self.compare_state(step, &op, None)?;
        self.full_sweep(step, &op)?;
        if self.spec.layout_check {
            // the statement is about the file *after flush()*: recovery may have dropped expired
            // generations without rewriting the counters yet
            return self.step(step, &Op::Flush);
        }
        Ok(())
    }

    /// After an acknowledged flush: everything is durable and (optionally) the raw
    /// file decodes, by the independent reader, to exactly the model (C10).
    fn after_flush(&mut self, step: usize) -> Result<(), Failure> {
        let snap = self.store().verif_snapshot();
        for e in &snap.entries {
            if e.sector == 0 {
                return Err(self.fail(step, "flush:not-durable", format!("flush() returned Ok but key {} has no extent on the device", hex(&e.key))));
            }
        }
        if !self.spec.layout_check {
            return Ok(());
        }
        self.layout_checks += 1;
        let image = std::fs::read(self.path.as_ref().unwrap()).map_err(|e| self.fail(step, "layout:read", format!("{e}")))?;
        crate::engines::layout::check_image(&image, &self.model, &snap, self.cfg.version).map_err(|(sig, msg)| self.fail(step, &sig, msg))
    }
}

pub fn run_program(spec: &ProgSpec, dir: &str, report: &mut Report) -> Option<Failure> {
    let path = if spec.cfg.persistent { Some(format!("{}/m-{}-{}.feox", dir, spec.index, fnv(spec.cfg.label().as_bytes()) % 100000)) } else { None };
    if let Some(p) = &path {
        let _ = std::fs::remove_file(p);
    }
    let mut runner = match Runner::open(spec, path.clone()) {
        Ok(r) => r,
        Err(e) if e.starts_with("probe ") => {
            // the very first calls on a freshly opened store (an automatically timestamped insert and delete of a key
            // nobody else knows, clock standing still) were refused: that IS a wrong answer, not a set-up problem
            report.violation(
                format!("model:fresh-store:{}", e.split(':').next().unwrap_or("probe").replace(' ', "-")),
                format!("on a freshly opened store ({}) with the clock standing still, an automatically timestamped insert followed by a delete of the same private key answered: {e}", spec.cfg.label()),
                json!({"engine": "model", "config": spec.cfg.label(), "seed": spec.seed, "index": spec.index, "failed_at_step": 0}),
            );
            return Some(Failure { sig: "model:fresh-store".into(), msg: e, step: 0 });
        }
        Err(e) => {
            report.inconclusive.push(format!("program {} on {}: {}", spec.index, spec.cfg.label(), e));
            return None;
        }
    };
    let mut gen = Gener::new(spec);
    let mut failure = None;
    let mut step = 0;
    while step < spec.steps {
        let op = if Some(step) == spec.reopen_at && spec.cfg.persistent {
            Op::Reopen { ttl: None, cache: None }
        } else {
            gen.next(spec, &runner.model)
        };
        let mutating = matches!(op, Op::Insert { .. } | Op::InsertTtl { .. } | Op::Delete { .. } | Op::Cas { .. } | Op::Incr { .. } | Op::InsertIfAbsent { .. } | Op::JsonPatch { .. } | Op::UpdateTtl { .. } | Op::Persist { .. });
        if let Err(f) = runner.step(step, &op) {
            failure = Some(f);
            break;
        }
        if spec.flush_every && mutating && spec.cfg.persistent {
            if let Err(f) = runner.step(step, &Op::Flush) {
                failure = Some(f);
                break;
            }
        }
        step += 1;
    }
    if failure.is_none() {
        if let Err(f) = runner.full_sweep(step, &Op::Flush) {
            failure = Some(f);
        }
    }
    // drain: delete everything => zero usage (C13)
    if failure.is_none() && spec.focus == Focus::Mem {
        let keys: Vec<Vec<u8>> = runner.model.keys.keys().cloned().collect();
        for k in keys {
            let op = Op::Delete { k, ts: Ts::Explicit(u64::MAX) };
            if let Err(f) = runner.step(step, &op) {
                // keys pinned at u64::MAX cannot be deleted; that is the model's answer too, so only real mismatches land here
                failure = Some(f);
                break;
            }
        }
        if failure.is_none() && runner.model.keys.is_empty() && (runner.store().memory_usage() != 0 || runner.store().len() != 0) {
            failure = Some(Failure { sig: "acct:nonzero-after-drain".into(), msg: format!("memory_usage {} / len {} after deleting everything", runner.store().memory_usage(), runner.store().len()), step });
        }
    }
    if let Some(f) = &failure {
        if f.sig == "auto-ts:clock-saturated-by-near-max-explicit" && spec.prop != "C12" {
            // known finding C12-1 (DESIGN.md section 12): it is C12's to report; other properties just stop this program here
            report.count("programs_stopped_on_known_c12_saturation", 1);
            failure = None;
        }
    }
    report.evaluations += runner.calls;
    report.count("calls_checked", runner.calls);
    report.count("auto_timestamps_checked", runner.auto_checked);
    report.count("layout_decodes", runner.layout_checks);
    report.count("cache_hits_confirmed", runner.cache_hits_confirmed);
    report.count("expiry_boundary_probes", runner.boundary_probes);
    report.count("value_reads_checked", runner.value_checks);
    report.count("programs", 1);
    report.count(&format!("programs_{}", spec.cfg.label()), 1);
    for ((name, res, class), n) in &runner.stats {
        report.nontrivial.insert(fnv_mix(fnv_mix(fnv(name.as_bytes()), fnv(res.as_bytes())), fnv_mix(fnv(class.as_bytes()), fnv(spec.cfg.label().as_bytes()))));
        report.count(&format!("res_{res}"), *n);
    }
    if failure.is_none() && report.samples.len() < 2 {
        report.sample(json!({"config": spec.cfg.label(), "seed": spec.seed, "index": spec.index, "first_calls": runner.log.iter().take(12).collect::<Vec<_>>()}));
    }
    if let Some(f) = &failure {
        let tail: Vec<&String> = runner.log.iter().rev().take(if std::env::var("FVH_FULL_LOG").is_ok() { usize::MAX } else { 25 }).rev().collect();
        report.violation(
            f.sig.clone(),
            f.msg.clone(),
            json!({
                "engine": "model", "config": spec.cfg.label(), "seed": spec.seed, "index": spec.index, "steps": spec.steps,
                "focus": format!("{:?}", spec.focus), "flush_every": spec.flush_every, "reopen_at": spec.reopen_at, "extreme_ts": spec.extreme_ts,
                "failed_at_step": f.step, "calls_before_failure": tail,
                "note": "re-run: ./check <prop> --replay <this file> (re-generates the program from seed/index/config; clock-shard hashing is randomised per store, so automatic timestamps may differ between runs)",
            }),
        );
    }
    drop(runner.store.take());
    feoxdb::verif::set_thread_now_ns(0);
    if let Some(p) = &path {
        let _ = std::fs::remove_file(p);
    }
    failure
}

pub fn configs(which: &str) -> Vec<Cfg> {
    let mut out = Vec::new();
    let disk = |version: u32, cache: bool, ttl: bool| {
        let mut c = Cfg::disk(16 + 8192);
        c.version = version;
        c.cache = cache;
        c.ttl = ttl;
        c
    };
    let mem = |ttl: bool| {
        let mut c = Cfg::memory();
        c.ttl = ttl;
        c
    };
    match which {
        "mem" => {
            out.push(mem(false));
            out.push(mem(true));
        }
        "v3" => {
            for cache in [true, false] {
                for ttl in [true, false] {
                    out.push(disk(3, cache, ttl));
                }
            }
        }
        "ttl" => {
            out.push(mem(true));
            out.push(disk(3, true, true));
            out.push(disk(3, false, true));
            out.push(disk(2, true, true));
        }
        "cachepair" => {
            out.push(disk(3, true, true));
            out.push(disk(3, false, true));
            out.push(disk(2, true, false));
            out.push(disk(2, false, false));
        }
        _ => {
            out.push(mem(false));
            out.push(mem(true));
            for version in [3, 2, 1] {
                for cache in [true, false] {
                    for ttl in [true, false] {
                        out.push(disk(version, cache, ttl));
                    }
                }
            }
        }
    }
    out
}

pub fn run(args: &Args) -> Report {
    let focus = Focus::parse(args.get("focus").unwrap_or("all"));
    let mut report = Report::new(
        "model",
        "seeded single-threaded programs over every public method on a small key alphabet (shared prefixes, limit-length keys, invalid keys), M2 self-describing values (block-edge sizes), explicit/automatic timestamps and TTLs under a virtual clock, flush / reopen placed randomly and systematically; every call's result and the whole physical state (key set, timestamp, expiry, length, index agreement, len, memory_usage) compared with the reference model after every call. distinct = (method, residency of the key before the call, outcome class, configuration) cells observed",
    );
    if let Some(path) = args.get("replay") {
        return replay(path, report);
    }
    let thorough = args.thorough();
    let cfgs = configs(args.get("configs").unwrap_or("all"));
    let per_cfg = args.num("programs", if thorough { 400 } else { 24 }) as usize;
    let steps = args.num("steps", if thorough { 220 } else { 120 }) as usize;
    let shard = args.num("shard", 0);
    let shards = args.num("shards", 1).max(1);
    let mem_limited = focus == Focus::Mem;
    let mut specs = Vec::new();
    let mut index = 0u64;
    for cfg in &cfgs {
        for p in 0..per_cfg {
            index += 1;
            if index % shards != shard {
                continue;
            }
            let mut rng = Rng::derive(args.seed, index, 0xabc);
            let mut cfg = cfg.clone();
            if mem_limited || rng.chance(1, 6) {
                cfg.max_memory = Some(*rng.pick(&[600usize, 2000, 6000, 20000, 100_000]));
            }
            if cfg.persistent {
                cfg.cpus = *rng.pick(&[0usize, 2, 4, 8]);
                cfg.sync_io = rng.chance(1, 4);
            }
            if focus == Focus::Layout {
                if !cfg.persistent {
                    continue;
                }
                cfg.blocks = 16 + 1024;
                cfg.max_memory = None;
            }
            let variant = p % 4;
            specs.push(ProgSpec {
                cfg,
                seed: args.seed,
                index,
                steps,
                focus: focus.clone(),
                flush_every: variant == 1,
                reopen_at: if variant == 2 { Some(rng.usize_below(steps.max(1))) } else { None },
                extreme_ts: focus == Focus::Ts && rng.chance(1, 2) || rng.chance(1, 8),
                layout_check: focus == Focus::Layout,
                prop: args.get("prop").unwrap_or("").to_string(),
            });
        }
    }
    run_specs(specs, &mut report, args.num("threads", 32) as usize, &args.known());
    report
}

/// Calls currently executing inside the store, per program thread: (start, call, replay document of the program).
static INFLIGHT: std::sync::LazyLock<parking_lot::Mutex<std::collections::HashMap<std::thread::ThreadId, (std::time::Instant, String, Value)>>> =
    std::sync::LazyLock::new(|| parking_lot::Mutex::new(std::collections::HashMap::new()));
/// A single sequential call on an idle-but-for-us store that has not returned after this long never will.
const CALL_DEADLINE: std::time::Duration = std::time::Duration::from_secs(90);

pub fn run_specs(specs: Vec<ProgSpec>, report: &mut Report, threads: usize, known: &[String]) {
    let known: Vec<String> = known.to_vec();
    let scratch = storeutil::Scratch(storeutil::scratch_dir("model"));
    let dir = scratch.0.clone();
    let queue = std::sync::Arc::new(parking_lot::Mutex::new(specs));
    let merged = std::sync::Arc::new(parking_lot::Mutex::new(Report::new("model", "")));
    let stop = std::sync::Arc::new(std::sync::atomic::AtomicBool::new(false));
    let mut handles = Vec::new();
    for _ in 0..threads.max(1) {
        let queue = queue.clone();
        let merged = merged.clone();
        let dir = dir.clone();
        let stop = stop.clone();
        let known = known.clone();
        handles.push(std::thread::spawn(move || loop {
            if stop.load(std::sync::atomic::Ordering::Relaxed) {
                break;
            }
            let Some(spec) = queue.lock().pop() else { break };
            let mut local = Report::new("model", "");
            let failed = run_program(&spec, &dir, &mut local).is_some();
            let mut m = merged.lock();
            m.merge(local);
            if failed && m.violations.iter().filter(|v| !known.contains(&v.sig)).count() >= 5 {
                stop.store(true, std::sync::atomic::Ordering::Relaxed);
            }
        }));
    }
    // the program threads are polled rather than joined: a call that never returns (a livelock inside the
    // store) must become a verdict, not a watchdog timeout
    let mut hung: Option<(String, f64, Value)> = None;
    while handles.iter().any(|h| !h.is_finished()) {
        std::thread::sleep(std::time::Duration::from_millis(50));
        let overdue = INFLIGHT.lock().iter().find(|(_, (t0, _, _))| t0.elapsed() > CALL_DEADLINE).map(|(_, (t0, call, doc))| (call.clone(), t0.elapsed().as_secs_f64(), doc.clone()));
        if let Some(candidate) = overdue {
            // the wall clock only raises the question. A call is judged "never returns" when, over three seconds, no
            // thread of this process other than this poller consumes any CPU time (everybody is blocked: a deadlock
            // or a lost wake-up); a call that spins is caught by the per-call CPU budget instead. While anybody is
            // still computing - a slow tool, a loaded machine - the answer is "not yet" and polling goes on
            let me = unsafe { libc::syscall(libc::SYS_gettid) } as u64;
            let others = |m: &std::collections::BTreeMap<String, (String, u64)>| -> u64 { m.iter().filter(|(tid, _)| tid.parse::<u64>().ok() != Some(me)).map(|(_, (_, c))| *c).sum() };
            let a = others(&crate::engines::live::thread_cpu(std::process::id()));
            std::thread::sleep(std::time::Duration::from_secs(3));
            let b = others(&crate::engines::live::thread_cpu(std::process::id()));
            let still = INFLIGHT.lock().iter().any(|(_, (t0, _, _))| t0.elapsed() > CALL_DEADLINE);
            if still && b == a {
                hung = Some(candidate);
            }
        }
        if hung.is_some() {
            stop.store(true, std::sync::atomic::Ordering::Relaxed);
            break;
        }
    }
    if let Some((call, secs, doc)) = hung {
        let name = call.split(|c: char| !c.is_ascii_alphanumeric() && c != '_').next().unwrap_or("").to_string();
        let m = std::mem::replace(&mut *merged.lock(), Report::new("model", ""));
        report.merge(m);
        report.violation(
            format!("model:call-never-returned:{name}"),
            format!("the sequential call {call} has not returned after {secs:.0} s on a store nobody else is using, and for three seconds no thread of the process consumed any CPU time (everybody is blocked)"),
            doc,
        );
        return; // the stuck thread is abandoned; the process exits after writing the report
    }
    for h in handles {
        if h.join().is_err() {
            report.inconclusive.push("HARNESS-PANIC: a model program thread panicked (its results are lost)".into());
        }
    }
    let m = std::mem::replace(&mut *merged.lock(), Report::new("model", ""));
    report.merge(m);
    drop(scratch);
}

fn replay(path: &str, mut report: Report) -> Report {
    let v: Value = serde_json::from_str(&std::fs::read_to_string(path).expect("read replay")).expect("parse replay");
    let label = v["config"].as_str().unwrap_or("").to_string();
    let cfg = configs("all").into_iter().find(|c| c.label().starts_with(label.trim_end_matches("-sync"))).unwrap_or_else(Cfg::memory);
    let spec = ProgSpec {
        cfg,
        seed: v["seed"].as_u64().unwrap_or(1),
        index: v["index"].as_u64().unwrap_or(0),
        steps: v["steps"].as_u64().unwrap_or(100) as usize,
        focus: Focus::parse(&v["focus"].as_str().unwrap_or("all").to_lowercase()),
        flush_every: v["flush_every"].as_bool().unwrap_or(false),
        reopen_at: v["reopen_at"].as_u64().map(|x| x as usize),
        extreme_ts: v["extreme_ts"].as_bool().unwrap_or(false),
        layout_check: false,
        prop: v["property"].as_str().unwrap_or("").to_string(),
    };
    let scratch = storeutil::Scratch(storeutil::scratch_dir("replay"));
    let _ = &scratch;
    for _ in 0..8 {
        run_specs(vec![spec.clone()], &mut report, 1, &[]);
        if !report.violations.is_empty() {
            break;
        }
    }
    report
}

#[allow(dead_code)]
pub fn patch_ok(doc: &[u8], patch: &[u8]) -> bool {
    apply_patch(doc, patch).is_ok()
}
