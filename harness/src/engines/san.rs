//! E-san: workloads meant to be run under a sanitizer / Miri / memcheck (C20).
//!  * `direct`: the O_DIRECT code paths (AlignedBuffer, aligned reads/writes, io_uring batches
//!              with aligned copies) that the store never takes inside this sandbox.
//!  * `mini`:   a small deterministic-ish program sized for Miri: range scans racing updates,
//!              deletes and expiry on a memory-only store, plus (optionally) a persistent
//!              program on synchronous I/O: write, flush, read back from the device, update,
//!              delete, reopen.
//! Oracles here are only sanity checks; the verdict comes from the tool watching the run.

use crate::args::Args;
use crate::report::Report;
use crate::rng::{fnv_mix, Rng};
use crate::values::{self, Tag};
use feoxdb::storage::io::DiskIO;
use feoxdb::utils::allocator::{AlignedBuffer, FeoxAllocator};
use serde_json::json;
use std::sync::Arc;

fn direct(args: &Args, report: &mut Report) {
    use std::os::unix::fs::OpenOptionsExt;
    let dir = std::env::var("VERIF_DIRECT_DIR").unwrap_or_else(|_| "/var/tmp".into());
    let path = format!("{dir}/fvh-direct-{}.bin", std::process::id());
    let file = match std::fs::OpenOptions::new().read(true).write(true).create(true).truncate(true).custom_flags(libc::O_DIRECT).open(&path) {
        Ok(f) => f,
        Err(e) => {
            report.inconclusive.push(format!("O_DIRECT open failed in {dir}: {e}"));
            return;
        }
    };
    file.set_len(2048 * 4096).unwrap();
    let file = Arc::new(file);
    let mut rng = Rng::new(args.seed);
    let rounds = args.num("rounds", 40);
    let mon = crate::mon::hub().watch(&path);
    for round in 0..rounds {
        // failures on the io_uring path: one SQE of this round's batch is completed with EBADF, one
        // io_uring_enter is interrupted; in the last round io_uring_enter fails for good (the
        // outcome is indeterminate and the buffers still queued must be leaked, not freed)
        let last = round + 1 == rounds;
        let (enter_now, _) = mon.enter_stats();
        let mut plan = crate::mon::FaultPlan { uring: true, ..Default::default() };
        if round % 3 == 1 {
            plan.at.push((mon.calls() + 8 + rng.below(6) as u32, crate::mon::Fault::Before));
        }
        if round % 3 == 2 {
            plan.enter.push((enter_now, 4));
            plan.enter.push((enter_now + 1, 4));
        }
        if last {
            plan.enter.push((enter_now + rng.below(2) as u32, 5));
        }
        mon.set_plan(plan);
        let mut io = match DiskIO::new(file.clone(), true) {
            Ok(io) => io,
            Err(e) => {
                report.inconclusive.push(format!("DiskIO::new: {e:?}"));
                break;
            }
        };
        // synchronous aligned writes / reads of 1..8 blocks
        for _ in 0..8 {
            let blocks = rng.range(1, 8);
            let sector = rng.range(16, 200);
            let data = rng.bytes(blocks as usize * 4096);
            if io.write_sectors_sync(sector, &data).is_ok() {
                match io.read_sectors_sync(sector, blocks) {
                    Ok(back) if back == data => report.count("direct_roundtrips", 1),
                    Ok(_) => report.violation("san:direct-readback", "O_DIRECT read returned different bytes than written", json!({"engine": "san", "mode": "direct"})),
                    Err(e) => report.inconclusive.push(format!("direct read: {e:?}")),
                }
            }
            report.evaluations += 1;
        }
        // io_uring batch with aligned copies
        let nwrites = rng.range(1, 40);
        let writes: Vec<(u64, Vec<u8>)> = (0..nwrites).map(|i| { let n = 4096 * rng.range(1, 2) as usize; (16 + i * 2, rng.bytes(n)) }).collect();
        let expect = writes.clone();
        match io.batch_write(writes) {
            Ok(()) => {
                for (s, d) in expect.iter().rev().take(3) {
                    if let Ok(back) = io.read_sectors_sync(*s, (d.len() / 4096) as u64) {
                        if &back != d && expect.iter().filter(|(s2, d2)| *s2 < s + (d.len() / 4096) as u64 && s2 + (d2.len() / 4096) as u64 > *s).count() == 1 {
                            report.violation("san:batch-readback", "batch_write data differs on read back", json!({"engine": "san", "mode": "direct"}));
                        }
                    }
                }
                report.count("direct_batches", 1);
            }
            Err(feoxdb::FeoxError::IndeterminateWrite(_)) if last => report.count("direct_batches_indeterminate", 1),
            Err(feoxdb::FeoxError::IoError(_)) if round % 3 == 1 => report.count("direct_batches_failed_sqe", 1),
            Err(e) => report.inconclusive.push(format!("batch_write: {e:?}")),
        }
        // long extents: reads and writes of several hundred blocks (more than one internal chunk,
        // and not a whole number of chunks)
        if !last && round % 4 == 0 {
            let blocks = *rng.pick(&[257u64, 300, 511, 513, 700, 1024]);
            let data = rng.bytes(blocks as usize * 4096);
            if io.write_sectors_sync(600, &data).is_ok() {
                match io.read_sectors_sync(600, blocks) {
                    Ok(back) if back == data => report.count("direct_long_roundtrips", 1),
                    Ok(_) => report.violation("san:direct-readback", "long O_DIRECT read returned different bytes than written", json!({"engine": "san", "mode": "direct"})),
                    Err(e) => report.inconclusive.push(format!("long direct read: {e:?}")),
                }
            }
            report.evaluations += 1;
        }
        // concurrent readers on one handle, the way the store uses it (shared side of a reader-writer lock):
        // each thread re-reads its own extents, of growing and shrinking sizes, and must see its own bytes
        if !last && round % 2 == 0 {
            let nthreads = 4usize;
            for t in 0..nthreads {
                let pattern: Vec<u8> = (0..40 * 4096).map(|i| (t as u8).wrapping_mul(31).wrapping_add((i / 4096) as u8)).collect();
                let _ = io.write_sectors_sync(1100 + t as u64 * 60, &pattern);
            }
            let shared = Arc::new(parking_lot::RwLock::new(io));
            let mut hs = Vec::new();
            for t in 0..nthreads {
                let shared = shared.clone();
                let mut trng = Rng::derive(args.seed, round, 40 + t as u64);
                hs.push(std::thread::spawn(move || {
                    let mut bad = 0u64;
                    let mut reads = 0u64;
                    for i in 0..60u64 {
                        let blocks = if i % 7 == 6 { 40 } else { trng.range(1, 24) };
                        let off = trng.below(40 - blocks + 1);
                        if let Ok(data) = shared.read().read_sectors_sync(1100 + t as u64 * 60 + off, blocks) {
                            reads += 1;
                            let ok = data.len() == blocks as usize * 4096 && data.chunks(4096).enumerate().all(|(b, c)| c.iter().all(|x| *x == (t as u8).wrapping_mul(31).wrapping_add((off as usize + b) as u8)));
                            if !ok {
                                bad += 1;
                            }
                        }
                    }
                    (reads, bad)
                }));
            }
            let mut bad = 0;
            for h in hs {
                let (r, b) = h.join().unwrap_or((0, 1));
                report.count("direct_concurrent_reads", r);
                bad += b;
            }
            if bad > 0 {
                report.violation("san:direct-concurrent-read", format!("{bad} concurrent O_DIRECT reads through one shared handle returned bytes of another reader's extent"), json!({"engine": "san", "mode": "direct"}));
            }
            io = match Arc::try_unwrap(shared) {
                Ok(l) => l.into_inner(),
                Err(_) => {
                    report.inconclusive.push("direct: handle still shared".into());
                    break;
                }
            };
            report.evaluations += 1;
        }
        let _ = io.flush();
        io.shutdown();
        // AlignedBuffer life cycle
        for _ in 0..16 {
            let cap = rng.range(1, 70000) as usize;
            if let Ok(mut b) = AlignedBuffer::new(cap) {
                let n = rng.usize_below(b.capacity() + 1);
                b.set_len(n);
                b.as_mut_slice().fill(round as u8);
                let s: u64 = b.as_slice().iter().map(|x| *x as u64).sum();
                if s != n as u64 * (round as u8) as u64 {
                    report.violation("san:aligned-buffer", "AlignedBuffer content mismatch", json!({"engine": "san"}));
                }
                b.clear();
                report.count("aligned_buffers", 1);
            }
        }
        for size in [1usize, 64, 8192, 8193, 100_000] {
            if let Ok(p) = FeoxAllocator::allocate(size) {
                unsafe { std::ptr::write_bytes(p.as_ptr(), 0xab, size) };
                FeoxAllocator::deallocate(p, size);
                report.count("allocator_roundtrips", 1);
            }
        }
        report.nontrivial.insert(fnv_mix(round, 1));
    }
    mon.clear_plan();
    crate::mon::hub().unwatch(&mon);
    let (q, c, ce, leaked, violations) = crate::mon::hub().uring_stats();
    report.count("uring_buffers_queued", q);
    report.count("uring_buffers_completed", c);
    report.count("uring_buffers_completed_with_error", ce);
    report.count("uring_buffers_left_in_flight", leaked as u64);
    for v in violations {
        report.violation("san:inflight-buffer-dropped", v, json!({"engine": "san", "mode": "direct"}));
    }
    let _ = std::fs::remove_file(&path);
}

fn mini(args: &Args, report: &mut Report) {
    let seed = args.seed;
    let ops = args.num("ops", 12) as u32;
    // (a) memory-only: scanners vs writers vs deleters vs expiry (TreeSlot swaps + epoch reclamation)
    {
        let store = Arc::new(feoxdb::FeoxStore::builder().hash_bits(4).enable_ttl(true).no_memory_limit().build().expect("mem store"));
        for i in 0..8u32 {
            let k = format!("s{i}").into_bytes();
            store.insert(&k, &values::make(Tag { key_id: i, writer: 0, seq: 0 }, 40)).unwrap();
        }
        // the background sweeper samples and removes expired generations while the scanners hold them; the clock
        // is pushed past every 1 s / 5 s expiry half way through
        if args.get("sweeper").is_some() {
            store.start_ttl_sweeper(Some(feoxdb::core::ttl_sweep::TtlConfig { sample_size: 8, expiry_threshold: 0.05, max_iterations: 4, max_time_per_run: std::time::Duration::from_millis(5), sleep_interval: std::time::Duration::from_millis(1), enabled: true }));
        }
        let mut hs = Vec::new();
        for t in 0..3u64 {
            let s = store.clone();
            hs.push(std::thread::spawn(move || {
                let mut rng = Rng::derive(seed, t, 5);
                let mut bad = 0u64;
                for i in 0..ops {
                    let k = format!("s{}", rng.below(8)).into_bytes();
                    if t == 1 && i == ops / 2 {
                        feoxdb::verif::advance_clock_ns(6_000_000_000);
                    }
                    match (t, rng.below(6)) {
                        (0, _) => {
                            if let Ok(r) = s.range_query(b"s0", b"s9", 100) {
                                for (_, v) in r {
                                    if values::check(&v).is_err() {
                                        bad += 1;
                                    }
                                }
                            }
                        }
                        (_, 0) => {
                            let _ = s.delete(&k);
                        }
                        (_, 1) => {
                            let _ = s.insert_with_ttl(&k, &values::make(Tag { key_id: 1, writer: t as u16, seq: i }, 30), 1);
                        }
                        (_, 2) => {
                            let _ = s.get(&k);
                        }
                        (_, 3) => {
                            let _ = s.atomic_increment(b"ctr", 1);
                        }
                        (_, 4) => match i % 4 {
                            0 => {
                                let _ = s.update_ttl(&k, 5);
                            }
                            1 => {
                                let _ = s.persist(&k);
                            }
                            2 => {
                                let _ = s.get_bytes(&k);
                            }
                            _ => {
                                let _ = s.insert_if_absent(&k, &values::make(Tag { key_id: 1, writer: t as u16, seq: i }, 44));
                            }
                        },
                        _ => match i % 4 {
                            0 => {
                                if let Ok(cur) = s.get(&k) {
                                    let _ = s.compare_and_swap(&k, &cur, &values::make(Tag { key_id: 1, writer: t as u16, seq: i }, 52));
                                }
                            }
                            1 => {
                                let _ = s.insert(b"doc", br#"{"l":[1]}"#);
                                let _ = s.json_patch(b"doc", br#"[{"op":"add","path":"/l/-","value":2}]"#);
                            }
                            2 => {
                                let _ = s.insert_bytes(&k, bytes::Bytes::from(values::make(Tag { key_id: 1, writer: t as u16, seq: i }, 70)));
                            }
                            _ => {
                                let _ = s.insert(&k, &values::make(Tag { key_id: 1, writer: t as u16, seq: i }, 60));
                            }
                        },
                    }
                }
                bad
            }));
        }
        for h in hs {
            if h.join().unwrap_or(1) != 0 {
                report.violation("san:mini-bad-value", "range scan returned bytes that are not a stored value", json!({"engine": "san", "mode": "mini"}));
            }
        }
        report.evaluations += 3 * ops as u64;
        report.nontrivial.insert(fnv_mix(seed, 2));
        drop(store);
    }
    // (b) persistent on synchronous I/O
    if args.get("persistent").is_some() {
        let dir = std::env::var("VERIF_TMP").unwrap_or_else(|_| "/tmp".into());
        let path = format!("{dir}/fvh-mini-{}.feox", std::process::id());
        let _ = std::fs::remove_file(&path);
        feoxdb::verif::set_force_sync_io(true);
        for round in 0..2 {
            let store = feoxdb::FeoxStore::builder().device_path(path.clone()).file_size(4096 * 48).hash_bits(4).no_memory_limit().enable_caching(round == 0).build().expect("disk store");
            for i in 0..4u32 {
                let k = format!("p{i}").into_bytes();
                let _ = store.insert(&k, &values::make(Tag { key_id: i, writer: 0, seq: round }, if i == 1 { 5000 } else { 50 }));
            }
            let _ = store.flush();
            for i in 0..4u32 {
                let k = format!("p{i}").into_bytes();
                match store.get(&k) {
                    Ok(v) if values::check(&v).is_ok() => report.count("mini_disk_reads", 1),
                    Ok(_) => report.violation("san:mini-bad-value", "value read back from the device is damaged", json!({"engine": "san", "mode": "mini"})),
                    Err(_) => {}
                }
            }
            let _ = store.insert(b"p1", b"short-now");
            let _ = store.delete(b"p2");
            let _ = store.flush();
            let _ = store.range_query(b"p", b"q", 10);
            report.evaluations += 14;
            drop(store);
        }
        feoxdb::verif::set_force_sync_io(false);
        let _ = std::fs::remove_file(&path);
        report.nontrivial.insert(fnv_mix(seed, 3));
    }
    // (c) values of more than a megabyte that have to be read back from the device (long extents)
    if args.get("big").is_some() {
        let dir = std::env::var("VERIF_TMP").unwrap_or_else(|_| "/tmp".into());
        let path = format!("{dir}/fvh-big-{}.feox", std::process::id());
        let _ = std::fs::remove_file(&path);
        let sizes = [1_200_000usize, 2_621_440 - 100, 4 * 1024 * 1024, 1_048_576 + 1];
        for (round, sync) in [(0u32, true), (1, false)] {
            feoxdb::verif::set_force_sync_io(sync);
            let open = || feoxdb::FeoxStore::builder().device_path(path.clone()).file_size(4096 * 6144).hash_bits(4).no_memory_limit().enable_caching(false).enable_ttl(true).build();
            let store = open().expect("big store");
            for (i, size) in sizes.iter().enumerate() {
                let k = format!("big{i}").into_bytes();
                let _ = store.insert(&k, &values::make(Tag { key_id: i as u32, writer: 0, seq: round }, *size));
            }
            let _ = store.flush();
            drop(store);
            let store = open().expect("big store reopen");
            for (i, size) in sizes.iter().enumerate() {
                let k = format!("big{i}").into_bytes();
                match store.get(&k) {
                    Ok(v) if v.len() == *size && values::check(&v).is_ok() => report.count("big_disk_reads", 1),
                    Ok(v) => report.violation("san:big-bad-value", format!("a {size}-byte value read back from the device is damaged (got {} bytes)", v.len()), json!({"engine": "san", "mode": "mini"})),
                    Err(e) => report.inconclusive.push(format!("big read: {e:?}")),
                }
            }
            let _ = store.update_ttl(b"big1", 3600); // TTL-only update of a value that lives on the device only
            let _ = store.range_query(b"big", b"bih", 10).map(|r| report.count("big_range_values", r.len() as u64));
            let _ = store.flush();
            let _ = store.get(b"big1");
            for i in 0..sizes.len() {
                let _ = store.delete(format!("big{i}").as_bytes());
            }
            let _ = store.flush();
            report.evaluations += 16;
            drop(store);
        }
        feoxdb::verif::set_force_sync_io(false);
        let _ = std::fs::remove_file(&path);
        report.nontrivial.insert(fnv_mix(seed, 5));
    }
    report.nontrivial.insert(fnv_mix(seed, 4));
}

pub fn run(args: &Args) -> Report {
    let mut report = Report::new("san", "workloads for the sanitizer lanes: O_DIRECT / AlignedBuffer / allocator paths (direct), and a small scan-vs-update-vs-delete-vs-expiry program plus a persistent write/flush/read/reopen program sized for Miri (mini). The verdict is the tool's; these oracles are sanity checks");
    match args.get("mode").unwrap_or("mini") {
        "direct" => direct(args, &mut report),
        _ => mini(args, &mut report),
    }
    report
}
