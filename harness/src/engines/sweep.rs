//! E-sweep (C11, concurrent / restart halves):
//!  * `sweeper`:  the background TTL sweeper (1 ms interval) racing renewals, replacements and
//!                persists of keys at the edge of expiry, with clock jumps; keys without expiry
//!                and keys renewed in time must stay visible, expired keys must not be served.
//!  * `ttlcrash`: crash images in which an expiring generation g2 supersedes a durable g1;
//!                recovery with the clock past g2's expiry must not resurrect g1, neither
//!                immediately nor when the repaired file is reopened with TTL disabled.

use crate::args::Args;
use crate::crashimg;
use crate::mon::{hub, Ev, SchedCtl};
use crate::report::{hex, Report};
use crate::rng::{fnv, fnv_mix, Rng};
use crate::storeutil::{self, err_name, Cfg};
use crate::values::{self, Tag};
use feoxdb::core::ttl_sweep::TtlConfig;
use feoxdb::FeoxError;
use serde_json::json;
use std::sync::atomic::{AtomicBool, AtomicU64, Ordering};
use std::sync::Arc;
use std::time::Duration;

const NS: u64 = 1_000_000_000;

fn now() -> u64 {
    feoxdb::verif::wall_now_ns().unwrap()
}

fn kid(k: &[u8]) -> u32 {
    (fnv(k) & 0xffff_ffff) as u32
}

fn sweeper_run(report: &mut Report, seed: u64, rid: u64, dir: &str) -> Option<(String, String)> {
    let mut rng = Rng::derive(seed, rid, 0x77e);
    let persistent = rng.chance(1, 2);
    let mut cfg = if persistent { Cfg::disk(16 + 2048) } else { Cfg::memory() };
    cfg.ttl = true;
    cfg.cache = rng.chance(1, 2);
    let path = format!("{dir}/sweep-{rid}.feox");
    let _ = std::fs::remove_file(&path);
    let store = Arc::new(storeutil::open(&cfg, if persistent { Some(&path) } else { None }).ok()?);
    store.start_ttl_sweeper(Some(TtlConfig { sample_size: 64, expiry_threshold: 0.05, max_iterations: 16, max_time_per_run: Duration::from_millis(5), sleep_interval: Duration::from_millis(1), enabled: true }));
    let ctl = Arc::new(SchedCtl::new(seed ^ rid, 10, 100).target("ttl.sweep.sampled", 600, 1500).target("ttl.before_update", 200, 300).target("update.before_entry", 200, 300));
    hub().set_sched(Some(ctl.clone()));
    let stop = Arc::new(AtomicBool::new(false));
    let flusher = if persistent {
        let (s, stop) = (store.clone(), stop.clone());
        Some(std::thread::spawn(move || {
            while !stop.load(Ordering::Relaxed) {
                let _ = s.flush();
                std::thread::sleep(Duration::from_millis(2));
            }
        }))
    } else {
        None
    };
    // permanent keys: must never disappear; a reader keeps checking them while the sweeper works
    let permanent: Vec<Vec<u8>> = (0..12).map(|i| format!("perm-{i:02}").into_bytes()).collect();
    for k in &permanent {
        store.insert(k, &values::make(Tag { key_id: kid(k), writer: 0, seq: 1 }, 40)).ok()?;
    }
    let lost_permanent = Arc::new(AtomicU64::new(0));
    let reader = {
        let (s, stop, permanent, lost) = (store.clone(), stop.clone(), permanent.clone(), lost_permanent.clone());
        std::thread::spawn(move || {
            let mut n = 0u64;
            while !stop.load(Ordering::Relaxed) {
                for k in &permanent {
                    if s.get(k).is_err() {
                        lost.fetch_add(1, Ordering::Relaxed);
                    }
                    n += 1;
                }
            }
            n
        })
    };
    let mut failure = None;
    let mut seq = 1u32;
    let fail = |sig: &str, msg: String| Some((sig.to_string(), msg));
    'rounds: for round in 0..(if persistent { 25 } else { 40 }) {
        let keys: Vec<Vec<u8>> = (0..8).map(|i| format!("ttl-{round:02}-{i}").into_bytes()).collect();
        // every key gets a 1 s TTL
        let mut expiry_lo = Vec::new();
        let mut expiry_hi = Vec::new();
        for k in &keys {
            seq += 1;
            let tb = now();
            if store.insert_with_ttl(k, &values::make(Tag { key_id: kid(k), writer: 0, seq }, 60), 1).is_err() {
                continue 'rounds;
            }
            let ta = now();
            expiry_lo.push(tb + NS);
            expiry_hi.push(ta + NS);
        }
        // jump to just before the earliest expiry: every key is still visible
        let target = expiry_lo.iter().min().unwrap() - 3_000_000;
        let n0 = now();
        if target > n0 {
            feoxdb::verif::advance_clock_ns(target - n0);
        }
        for (i, k) in keys.iter().enumerate() {
            let tb = now();
            let r = store.get(k);
            if r.is_err() && tb < expiry_lo[i] && now() < expiry_lo[i] {
                failure = fail("ttl:hidden-before-expiry", format!("get({}) failed with {:?} {} ns before its expiry", hex(k), r.err().map(|e| err_name(&e)), expiry_lo[i] - tb));
                break 'rounds;
            }
        }
        report.count("pre_expiry_probes", keys.len() as u64);
        // renewals racing the sweeper at the edge: half before expiry (update_ttl / persist), half
        // right after (replacement writes, which act on the still-present expired generation)
        let mut renewed: Vec<(usize, Option<u64>)> = Vec::new(); // (key index, new expiry lower bound or None = permanent)
        for (i, k) in keys.iter().enumerate().take(4) {
            let tb = now();
            let r = match i % 2 {
                0 => store.update_ttl(k, 100),
                _ => store.persist(k),
            };
            match r {
                Ok(()) => renewed.push((i, if i % 2 == 0 { Some(tb + 100 * NS) } else { None })),
                Err(FeoxError::KeyNotFound) if now() > expiry_lo[i] => {} // lost the race against time: fine
                Err(e) => {
                    failure = fail("ttl:renewal-refused", format!("update_ttl/persist({}) failed with {} although the key had not expired yet", hex(k), err_name(&e)));
                    break 'rounds;
                }
            }
        }
        // let the rest expire, with the sweeper sampling them
        let target = expiry_hi.iter().max().unwrap() + 2_000_000;
        let n0 = now();
        if target > n0 {
            feoxdb::verif::advance_clock_ns(target - n0);
        }
        std::thread::sleep(Duration::from_millis(rng.range(0, 4)));
        for (i, k) in keys.iter().enumerate().skip(4) {
            // expired now: no value-reading call may serve it
            if i % 2 == 0 {
                if let Ok(v) = store.get(k) {
                    failure = fail("ttl:visible-after-expiry", format!("get({}) returned {} after its expiry passed", hex(k), values::describe(&v)));
                    break 'rounds;
                }
                if let Ok(pairs) = store.range_query(k, k, 10) {
                    if !pairs.is_empty() {
                        failure = fail("ttl:visible-after-expiry", format!("range_query returned expired key {}", hex(k)));
                        break 'rounds;
                    }
                }
                report.count("post_expiry_probes", 2);
            } else {
                // replacement write on the expired (maybe still physically present, maybe being swept) key
                seq += 1;
                let v = values::make(Tag { key_id: kid(k), writer: 1, seq }, 50);
                let tb = now();
                let r = if i % 4 == 1 { store.insert_with_ttl(k, &v, 50) } else { store.insert(k, &v) };
                if r.is_ok() {
                    renewed.push((i, if i % 4 == 1 { Some(tb + 50 * NS) } else { None }));
                }
            }
        }
        // give the parked sweeper time to resume, then every renewed key must still be there
        std::thread::sleep(Duration::from_millis(rng.range(2, 8)));
        for (i, lo) in &renewed {
            let k = &keys[*i];
            let tb = now();
            let still_valid = lo.map(|e| tb < e).unwrap_or(true);
            match store.get(k) {
                Ok(_) => {}
                Err(e) if still_valid => {
                    failure = fail(
                        "ttl:renewed-key-lost",
                        format!("key {} was renewed/replaced successfully (new expiry {:?}, now {}) but get answers {} a few ms later while the sweeper was running", hex(k), lo, tb, err_name(&e)),
                    );
                    break 'rounds;
                }
                Err(_) => {}
            }
            report.count("renewal_checks", 1);
        }
        report.evaluations += 1;
        report.nontrivial.insert(fnv_mix(rid, round));
    }
    stop.store(true, Ordering::Relaxed);
    let reads = reader.join().unwrap_or(0);
    if let Some(f) = flusher {
        let _ = f.join();
    }
    hub().set_sched(None);
    report.count("permanent_key_reads", reads);
    if failure.is_none() && lost_permanent.load(Ordering::Relaxed) > 0 {
        failure = fail("ttl:permanent-key-hidden", format!("{} reads of keys without any expiry failed while the sweeper was running", lost_permanent.load(Ordering::Relaxed)));
    }
    for k in &permanent {
        if failure.is_none() && store.get(k).is_err() {
            failure = fail("ttl:permanent-key-removed", format!("key {} (no expiry) is gone after the sweeper ran", hex(k)));
        }
    }
    // the expiry instant itself, with the process-wide clock frozen on it: `now == expiry` is not yet
    // expired, so neither a read nor the sweeper (which keeps sampling while we wait) may take the key away
    if failure.is_none() {
        let t0 = now();
        feoxdb::verif::set_frozen_now_ns(t0);
        let keys: Vec<Vec<u8>> = (0..6).map(|i| format!("edge-{i}").into_bytes()).collect();
        let mut ok_keys = Vec::new();
        for k in &keys {
            seq += 1;
            if store.insert_with_ttl(k, &values::make(Tag { key_id: kid(k), writer: 0, seq }, 48), 1).is_ok() {
                ok_keys.push(k.clone());
            }
        }
        feoxdb::verif::set_frozen_now_ns(t0 + NS); // every one of them expires exactly now
        let sampled_before = store.stats().ttl_expired_active;
        std::thread::sleep(Duration::from_millis(25)); // the sweeper runs every millisecond
        for k in &ok_keys {
            match store.verif_entry(k) {
                Some(e) if e.ttl_expiry == t0 + NS => {
                    if let Err(e) = store.get(k) {
                        failure = fail("ttl:hidden-at-expiry-instant", format!("get({}) answers {} at the very instant of its expiry (now == expiry is not yet expired)", hex(k), err_name(&e)));
                    }
                    report.count("expiry_instant_probes", 1);
                }
                Some(_) => {} // expiry derived differently (not from the frozen clock): nothing to say
                None => {
                    failure = fail("ttl:removed-at-expiry-instant", format!("key {} was removed while the clock stood exactly on its expiry instant (sweeper removals {} -> {})", hex(k), sampled_before, store.stats().ttl_expired_active));
                }
            }
        }
        feoxdb::verif::set_frozen_now_ns(t0 + NS + 1);
        std::thread::sleep(Duration::from_millis(10));
        for k in &ok_keys {
            let expired = store.verif_entry(k).is_none_or(|e| e.ttl_expiry > 0 && e.ttl_expiry <= t0 + NS);
            if failure.is_none() && expired && store.get(k).is_ok() {
                failure = fail("ttl:visible-after-expiry", format!("get({}) still answers one nanosecond after its expiry", hex(k)));
            }
        }
        feoxdb::verif::set_frozen_now_ns(0);
    }
    // quiescence (callers stopped; the sweeper goes idle once nothing expired is left): exact accounting and
    // agreement of the two indexes, including after removals made by the sweeper
    if failure.is_none() {
        feoxdb::verif::advance_clock_ns(3 * NS);
        let overhead = storeutil::record_overhead();
        let mut bad: Option<String> = None;
        let mut strikes = 0;
        for _ in 0..200 {
            let removed_before = store.stats().ttl_expired_active;
            let snap = store.verif_snapshot();
            let (usage, len) = (store.memory_usage(), store.len());
            let expired_left = snap.entries.iter().filter(|e| e.ttl_expiry > 0 && e.ttl_expiry < now()).count();
            let sum: usize = snap.entries.iter().map(|e| overhead + e.key.len() + e.value_len).sum();
            let mut hash: Vec<(&[u8], usize)> = snap.entries.iter().map(|e| (e.key.as_slice(), e.addr)).collect();
            let mut tree: Vec<(&[u8], usize)> = snap.tree.iter().map(|(k, a)| (k.as_slice(), *a)).collect();
            hash.sort();
            tree.sort();
            let problem = if usage != sum {
                Some(format!("memory_usage() = {usage} but the {} live keys add up to {sum}", snap.entries.len()))
            } else if len != snap.entries.len() {
                Some(format!("len() = {len} but {} keys are live", snap.entries.len()))
            } else if hash != tree {
                let only_tree: Vec<String> = tree.iter().filter(|t| !hash.contains(t)).take(3).map(|(k, _)| hex(k)).collect();
                let only_hash: Vec<String> = hash.iter().filter(|t| !tree.contains(t)).take(3).map(|(k, _)| hex(k)).collect();
                Some(format!("ordered index and hash table disagree: only in the ordered index {only_tree:?}, only in the hash table {only_hash:?}"))
            } else {
                None
            };
            let stable = removed_before == store.stats().ttl_expired_active && expired_left == 0;
            match problem {
                None if stable => {
                    bad = None;
                    report.count("quiescent_accounting_checks", 1);
                    break;
                }
                Some(p) if stable => {
                    strikes += 1;
                    bad = Some(p);
                    if strikes >= 3 {
                        break;
                    }
                }
                _ => {}
            }
            std::thread::sleep(Duration::from_millis(5));
        }
        if let Some(p) = bad {
            failure = fail("ttl:quiescent-state", format!("after the callers stopped and the sweeper had nothing left to remove: {p}"));
        }
    }
    let st = store.stats();
    report.count("sweeper_removals", st.ttl_expired_active);
    for (point, arrivals, sleeps, exercised) in ctl.summary() {
        if point.starts_with("ttl.") && arrivals > 0 {
            report.count(&format!("sched_{point}_arrivals"), arrivals);
            report.count(&format!("sched_{point}_perturbed"), sleeps);
            report.count(&format!("sched_{point}_exercised"), exercised);
        }
    }
    if report.samples.is_empty() {
        report.sample(json!({"run": rid, "config": cfg.label(), "sweeper_removals": st.ttl_expired_active, "lazy_expiries": st.ttl_expired_lazy}));
    }
    drop(store);
    let _ = std::fs::remove_file(&path);
    failure
}

// ------------------------------------------------------------------ ttlcrash

fn ttlcrash_run(report: &mut Report, seed: u64, rid: u64, dir: &str) -> Option<(String, String)> {
    let mut rng = Rng::derive(seed, rid, 0x7c4a);
    let base_now: u64 = 1_800_000_000 * NS;
    let mut cfg = Cfg::disk(16 + 64);
    cfg.ttl = true;
    cfg.version = *rng.pick(&[3u32, 3, 2]);
    cfg.cache = false;
    cfg.cpus = *rng.pick(&[2usize, 4]);
    cfg.sync_io = rng.chance(1, 2);
    let path = format!("{dir}/tc-{rid}.feox");
    let _ = std::fs::remove_file(&path);
    storeutil::ensure_device(&cfg, &path);
    let base = if cfg.version >= 3 { vec![0u8; cfg.blocks as usize * 4096] } else { std::fs::read(&path).ok()? };
    let mon = hub().watch(&path);
    feoxdb::verif::set_thread_now_ns(base_now);
    let store = storeutil::open(&cfg, Some(&path)).ok()?;
    let nkeys = 2 + rng.usize_below(3);
    let keys: Vec<Vec<u8>> = (0..nkeys).map(|i| format!("tc-{i}").into_bytes()).collect();
    let mut g1 = Vec::new();
    let mut g2 = Vec::new();
    for (i, k) in keys.iter().enumerate() {
        let v = values::make(Tag { key_id: kid(k), writer: 0, seq: 1 }, *rng.pick(&[40usize, 4100, 9000]));
        store.insert(k, &v).ok()?;
        g1.push(v);
        let _ = i;
    }
    store.flush().ok()?;
    let g1_durable_at = mon.len();
    for k in keys.iter() {
        let v = values::make(Tag { key_id: kid(k), writer: 0, seq: 2 }, *rng.pick(&[40usize, 4100, 9000]));
        // the superseding generation expires 1-2 s after "now"
        match rng.below(3) {
            0 => store.insert_with_ttl(k, &v, 1).ok()?,
            1 => store.insert_with_ttl_and_timestamp(k, &v, 2, None).ok()?,
            _ => {
                store.insert(k, &v).ok()?;
                store.update_ttl(k, 1).ok()?;
                false
            }
        };
        g2.push(v);
    }
    if rng.chance(1, 2) {
        store.flush().ok()?;
    } else {
        std::thread::sleep(Duration::from_millis(250)); // the periodic flusher does it
    }
    drop(store);
    let events = mon.take_events();
    hub().unwatch(&mon);
    let _ = std::fs::remove_file(&path);
    // every cut after g1 became durable
    let past = base_now + 10 * NS;
    let mut checked = 0u64;
    let mut both_on_disk = 0u64;
    let mut seen_images = std::collections::HashSet::new();
    let mut cuts: Vec<usize> = (g1_durable_at..=events.len()).collect();
    if cuts.len() > 120 {
        rng.shuffle(&mut cuts);
        cuts.truncate(120);
    }
    for cut in cuts {
        let mut recipes = crashimg::recipes_for_cut(&events, cut, &mut rng, 2, 1);
        if recipes.len() > 5 {
            rng.shuffle(&mut recipes);
            recipes.truncate(5);
        }
        for recipe in recipes {
            let image = crashimg::build(&base, &events, &recipe);
            if !seen_images.insert(fnv(&image)) {
                continue;
            }
            // how many generations of each key does the independent reader see on this image?
            let two = crate::indep::scan(&image, None, true).map(|s| keys.iter().filter(|k| s.heads.iter().filter(|h| &h.key == *k).count() >= 2).count()).unwrap_or(0);
            both_on_disk += two as u64;
            let ipath = format!("{dir}/tc-{rid}-{cut}-{checked}.img");
            std::fs::write(&ipath, &image).ok()?;
            let mut rcfg = cfg.clone();
            rcfg.cpus = 2;
            rcfg.sync_io = true;
            // (1) TTL on, clock past every g2 expiry
            rcfg.ttl = true;
            feoxdb::verif::set_thread_now_ns(past);
            let rmon = hub().watch(&ipath);
            let first = match storeutil::open(&rcfg, Some(&ipath)) {
                Ok(s) => s,
                Err(e) => {
                    feoxdb::verif::set_thread_now_ns(0);
                    return Some(("ttlcrash:reopen-failed".into(), format!("crash image cannot be reopened with TTL enabled: {e:?} ({})", crashimg::describe(&events, &recipe))));
                }
            };
            let revents = rmon.take_events();
            hub().unwatch(&rmon);
            if let Err(p) = crashimg::journal_discipline(&revents, &[]) {
                return Some(("ttlcrash:journal-discipline".to_string(), format!("during recovery's repair writes: {p}")));
            }
            let d1 = storeutil::dump(&first);
            let mut state1 = Vec::new();
            for (i, k) in keys.iter().enumerate() {
                let got = first.get(k);
                let s = match &got {
                    Ok(v) if *v == g1[i] => "g1",
                    Ok(v) if *v == g2[i] => "g2",
                    Ok(_) => "other",
                    Err(_) => "absent",
                };
                if s == "g2" {
                    feoxdb::verif::set_thread_now_ns(0);
                    return Some(("ttlcrash:expired-visible".into(), format!("key {} serves its expired generation after recovery", hex(k))));
                }
                if s == "other" {
                    feoxdb::verif::set_thread_now_ns(0);
                    return Some(("ttlcrash:foreign-value".into(), format!("key {} serves bytes that are neither generation after recovery", hex(k))));
                }
                state1.push(s);
            }
            let _ = d1;
            drop(first);
            // (1b) crash inside THIS recovery's repair writes (TTL on), then recover again with TTL on:
            // a key that was absent because its newest generation had expired must stay absent
            if revents.iter().any(|e| matches!(e, Ev::W { .. })) {
                let mut inner_cuts: Vec<usize> = (1..=revents.len()).collect();
                if inner_cuts.len() > 6 {
                    rng.shuffle(&mut inner_cuts);
                    inner_cuts.truncate(6);
                }
                for c in inner_cuts {
                    let rr = crashimg::recipes_for_cut(&revents, c, &mut rng, 1, 0).into_iter().last().unwrap_or(crashimg::Recipe { cut: c, keep: vec![], tear: None });
                    let inner = crashimg::build(&image, &revents, &rr);
                    let p2 = format!("{ipath}.inner{c}");
                    std::fs::write(&p2, &inner).ok()?;
                    let again = match storeutil::open(&rcfg, Some(&p2)) {
                        Ok(s) => s,
                        Err(e) => {
                            feoxdb::verif::set_thread_now_ns(0);
                            return Some(("ttlcrash:restart-failed".into(), format!("crash inside recovery's repair ({}), next open fails: {e:?}", crashimg::describe(&revents, &rr))));
                        }
                    };
                    for (i, k) in keys.iter().enumerate() {
                        if state1[i] == "absent" && again.get(k).map(|v| v == g1[i]).unwrap_or(false) {
                            feoxdb::verif::set_thread_now_ns(0);
                            return Some((
                                "ttlcrash:restart-resurrects-older-generation".into(),
                                format!("key {}: the first recovery (TTL on) reported it absent (expired newest generation); after a crash inside that recovery's repair writes ({}), the restarted recovery serves the OLDER generation", hex(k), crashimg::describe(&revents, &rr)),
                            ));
                        }
                    }
                    let _ = std::fs::remove_file(&p2);
                    crate::engines::crash::REAPER.with_store(again);
                    report.count("inner_recovery_crash_images", 1);
                }
            }
            // (2) the repaired file reopened with TTL disabled: nothing older may come back
            rcfg.ttl = false;
            let second = match storeutil::open(&rcfg, Some(&ipath)) {
                Ok(s) => s,
                Err(e) => {
                    feoxdb::verif::set_thread_now_ns(0);
                    return Some(("ttlcrash:second-reopen-failed".into(), format!("{e:?}")));
                }
            };
            for (i, k) in keys.iter().enumerate() {
                let got = second.get(k);
                let s2 = match &got {
                    Ok(v) if *v == g1[i] => "g1",
                    Ok(v) if *v == g2[i] => "g2",
                    Ok(_) => "other",
                    Err(_) => "absent",
                };
                if state1[i] == "absent" && s2 == "g1" {
                    feoxdb::verif::set_thread_now_ns(0);
                    return Some((
                        "ttlcrash:older-generation-resurrected".into(),
                        format!("key {}: the newest generation had expired (key absent after recovery with TTL on), but reopening the repaired file with TTL disabled serves the OLDER generation again ({})", hex(k), crashimg::describe(&events, &recipe)),
                    ));
                }
            }
            crate::engines::crash::REAPER.with_store(second);
            // (3) the same image recovered with TTL disabled from the start: which generation won?
            std::fs::write(&ipath, &image).ok()?;
            let third = storeutil::open(&rcfg, Some(&ipath)).ok();
            if let Some(third) = third {
                for (i, k) in keys.iter().enumerate() {
                    let winner_g2 = third.get(k).map(|v| v == g2[i]).unwrap_or(false);
                    if winner_g2 && state1[i] == "g1" {
                        feoxdb::verif::set_thread_now_ns(0);
                        return Some(("ttlcrash:expired-winner-shadowing-lost".into(), format!("key {}: the newest generation on the device is the expired one, yet recovery with TTL enabled exposes the older generation", hex(k))));
                    }
                }
                let _ = std::fs::remove_file(&ipath);
                crate::engines::crash::REAPER.with_store(third);
            }
            let _ = std::fs::remove_file(&ipath);
            checked += 1;
            report.evaluations += 1;
            if two > 0 {
                report.nontrivial.insert(fnv_mix(fnv(&image), rid));
            }
        }
    }
    feoxdb::verif::set_thread_now_ns(0);
    report.count("ttl_crash_images", checked);
    report.count("images_with_two_generations_on_disk", both_on_disk);
    if report.samples.len() < 2 {
        report.sample(json!({"run": rid, "config": cfg.label(), "keys": nkeys, "trace_shape": crashimg::trace_shape(&events), "images": checked}));
    }
    let _ = events.iter().filter(|e| matches!(e, Ev::Fb { .. })).count();
    None
}

/// More than 1024 non-adjacent extents to retire in ONE recovery (the repair journals them in
/// chunks of 1024): expired newest generations sitting at LOWER sectors than the older durable
/// generations they shadow. A crash between two chunks of recovery's own repair must not bring
/// the older generations back (C04: restartable; C11: nothing older reappears).
fn bigretire_run(report: &mut Report, seed: u64, rid: u64, dir: &str) -> Option<(String, String)> {
    let mut rng = Rng::derive(seed, rid, 0xb16);
    let base_now: u64 = 1_800_000_000 * NS;
    let n = 1100 + rng.usize_below(300);
    let mut cfg = Cfg::disk(16 + 8192);
    cfg.ttl = true;
    cfg.cache = false;
    cfg.cpus = 2; // one shard, one worker: allocation order = call order
    cfg.sync_io = true;
    let path = format!("{dir}/big-{rid}.feox");
    let _ = std::fs::remove_file(&path);
    storeutil::ensure_device(&cfg, &path);
    let base = vec![0u8; cfg.blocks as usize * 4096];
    let mon = hub().watch(&path);
    feoxdb::verif::set_thread_now_ns(base_now);
    let store = storeutil::open(&cfg, Some(&path)).ok()?;
    let small = |k: &[u8], seq: u32| values::make(Tag { key_id: kid(k), writer: 0, seq }, 60);
    // low area occupied by junk (n*2 + 40 blocks), then g1 generations interleaved with live spacers above it
    for i in 0..(2 * n + 40) {
        let k = format!("junk-{i:05}").into_bytes();
        store.insert(&k, &small(&k, 0)).ok()?;
    }
    store.flush().ok()?;
    for i in 0..n {
        let a = format!("a-{i:05}").into_bytes();
        store.insert(&a, &small(&a, 1)).ok()?;
        let sp = format!("s-{i:05}").into_bytes();
        store.insert(&sp, &small(&sp, 1)).ok()?;
    }
    store.flush().ok()?;
    for i in 0..(2 * n + 40) {
        let k = format!("junk-{i:05}").into_bytes();
        store.delete(&k).ok()?;
    }
    store.flush().ok()?;
    // g2 (expiring) generations interleaved with new spacers: best fit puts them into the freed low area
    for i in 0..n {
        let a = format!("a-{i:05}").into_bytes();
        store.insert_with_ttl(&a, &small(&a, 2), 1).ok()?;
        let t = format!("t-{i:05}").into_bytes();
        store.insert(&t, &small(&t, 1)).ok()?;
    }
    let before_flush = mon.len();
    store.flush().ok()?;
    drop(store);
    let events = mon.take_events();
    hub().unwatch(&mon);
    let _ = std::fs::remove_file(&path);
    // crash right after the g2 data became durable and its journal was cleared, before any g1 is retired:
    // the first marker write after `before_flush`
    let _ = before_flush;
    let last_data = (0..events.len()).rev().find(|&i| matches!(&events[i], Ev::W { off, data, .. } if crate::mon::classify_write(*off, data) == crate::mon::IoClass::DataWrite))?;
    let first_marker = (last_data..events.len()).find(|&i| matches!(&events[i], Ev::W { off, data, .. } if crate::mon::classify_write(*off, data) == crate::mon::IoClass::MarkerWrite))?;
    // the retirement is journaled: cut BEFORE its journal intent, i.e. before the last journal write preceding the markers
    let cut = (last_data..first_marker).rev().find(|&i| matches!(&events[i], Ev::W { off, data, .. } if crate::mon::classify_write(*off, data) == crate::mon::IoClass::JournalWrite))?;
    let image = crashimg::build(&base, &events, &crashimg::Recipe { cut, keep: vec![], tear: None });
    let both = match crate::indep::scan(&image, None, true) {
        Ok(s) => {
            if std::env::var("FVH_DEBUG").is_ok() {
                let a0: Vec<(u64, u64)> = s.heads.iter().filter(|h| h.key == b"a-00000").map(|h| (h.sector, h.timestamp)).collect();
                eprintln!("heads {} records {} markers {} a0 {:?} cut {} of {} shape-tail {}", s.heads.len(), s.records.len(), s.markers.len(), a0, cut, events.len(), crashimg::trace_shape(&events).chars().rev().take(60).collect::<String>().chars().rev().collect::<String>());
            }
            s.heads.len() - s.records.len()
        }
        Err(e) => {
            report.inconclusive.push(format!("independent reader cannot read the bigretire image: {e}"));
            0
        }
    };
    report.count("keys_with_two_generations_on_disk", both as u64);
    // first recovery: TTL on, clock past every g2 expiry, trace recorded
    let ipath = format!("{dir}/big-{rid}.img");
    std::fs::write(&ipath, &image).ok()?;
    let mut rcfg = cfg.clone();
    rcfg.ttl = true;
    let rmon = hub().watch(&ipath);
    feoxdb::verif::set_thread_now_ns(base_now + 10 * NS);
    let first = match storeutil::open(&rcfg, Some(&ipath)) {
        Ok(s) => s,
        Err(e) => {
            feoxdb::verif::set_thread_now_ns(0);
            return Some(("bigretire:reopen-failed".into(), format!("{e:?}")));
        }
    };
    let revents = rmon.take_events();
    hub().unwatch(&rmon);
    // several journal cycles inside one open (one per chunk of repairs): slots must alternate, generations rise
    match crashimg::journal_discipline(&revents, &[]) {
        Ok(n) => report.count("recovery_journal_writes_checked", n),
        Err(p) => return Some(("bigretire:journal-discipline".to_string(), format!("during recovery's chunked repair: {p}"))),
    }
    let present_first: Vec<Vec<u8>> = (0..n).map(|i| format!("a-{i:05}").into_bytes()).filter(|k| first.get(k).is_ok()).collect();
    let live_first = first.len();
    drop(first);
    let journal_writes = revents.iter().filter(|e| matches!(e, Ev::W { off, data, .. } if crate::mon::classify_write(*off, data) == crate::mon::IoClass::JournalWrite)).count();
    report.count("recovery_journal_writes", journal_writes as u64);
    report.count("recovery_trace_events", revents.len() as u64);
    if !present_first.is_empty() {
        feoxdb::verif::set_thread_now_ns(0);
        return Some(("bigretire:expired-visible".into(), format!("{} keys whose newest generation expired are readable after recovery", present_first.len())));
    }
    // crash between the chunks of recovery's repair: every position right after a completed fsync
    let mut checked = 0;
    let mut cuts: Vec<usize> = (1..revents.len()).filter(|&i| matches!(revents[i - 1], Ev::Fe { ok: true })).collect();
    if cuts.len() > 14 {
        rng.shuffle(&mut cuts);
        cuts.truncate(14);
    }
    for c in cuts {
        let inner = crashimg::build(&image, &revents, &crashimg::Recipe { cut: c, keep: vec![], tear: None });
        let p2 = format!("{dir}/big-{rid}-{c}.img");
        std::fs::write(&p2, &inner).ok()?;
        let second = match storeutil::open(&rcfg, Some(&p2)) {
            Ok(s) => s,
            Err(e) => {
                feoxdb::verif::set_thread_now_ns(0);
                return Some(("bigretire:restart-failed".into(), format!("after a crash inside recovery's repair (after {c} of {} events) the next open fails: {e:?}", revents.len())));
            }
        };
        let resurrected: Vec<Vec<u8>> = (0..n).map(|i| format!("a-{i:05}").into_bytes()).filter(|k| second.get(k).is_ok()).collect();
        let live = second.len();
        let _ = std::fs::remove_file(&p2);
        crate::engines::crash::REAPER.with_store(second);
        checked += 1;
        report.evaluations += 1;
        report.nontrivial.insert(fnv_mix(rid, c as u64));
        if !resurrected.is_empty() || live != live_first {
            feoxdb::verif::set_thread_now_ns(0);
            return Some((
                "bigretire:older-generation-resurrected".into(),
                format!("recovery had to retire {} extents in {} journaled chunks; after a crash following event {c} of its {} repair events, the next recovery serves {} keys again with their OLDER generation (their newest generation had expired and was already retired) — first recovery: {} live keys, now {}; e.g. {}", 2 * n, journal_writes / 2, revents.len(), resurrected.len(), live_first, live, resurrected.first().map(|k| hex(k)).unwrap_or_default()),
            ));
        }
    }
    feoxdb::verif::set_thread_now_ns(0);
    let _ = std::fs::remove_file(&ipath);
    report.count("inner_crash_points_checked", checked);
    if report.samples.is_empty() {
        report.sample(json!({"run": rid, "keys": n, "two_generation_keys_on_image": both, "recovery_journal_writes": journal_writes, "inner_cuts": checked}));
    }
    None
}

pub fn run(args: &Args) -> Report {
    let mode = args.get("mode").unwrap_or("sweeper").to_string();
    let mut report = Report::new(
        "sweep",
        if mode == "midread" {
            "value-reading calls (get, get_bytes, range_query, compare_and_swap, json_patch, atomic_increment, insert_if_absent) on values that live on the device only are overtaken between their index lookup and pinning the extent (hook point read.before_pin): the key gets a new generation with a 1 s TTL which is flushed (the old extent is retired) and the clock jumps 5 s, or the key is deleted / replaced and flushed. After the first kind the call must not return, match or patch any value (the generation it meets has expired); after every kind whatever it returns must be a genuine value of that key. distinct = (run, round, kind) of calls whose disturbance was delivered"
        } else if mode == "sweeper" {
            "background TTL sweeper at 1 ms / sample 64 on memory-only and persistent stores (flush loop, cache on/off); per round 8 keys get a 1 s TTL, the (process-wide virtual) clock jumps to 3 ms before the earliest expiry (all must be visible), four keys are renewed / persisted at the edge, the clock jumps 2 ms past the latest expiry, the others are either probed (must be invisible to get and range) or replaced by new generations while the sweeper — delayed 1.5 ms between sampling and its guarded removal — is working on them; every successfully renewed/replaced key must still be readable afterwards, keys without expiry must never fail a read. distinct = rounds executed"
        } else {
            "workloads where an expiring generation g2 (TTL insert, explicit-timestamp TTL insert, or insert + TTL-only update) supersedes a durable g1, with the device trace recorded; for every cut after g1 became durable, crash images (subsets + tearing) are recovered with TTL enabled and the clock 10 s later: g2 must never be served, and when the key is absent (g2 had won and expired) reopening the repaired file with TTL disabled must not serve g1 again; the same image recovered with TTL disabled tells which generation was newest on the device. non-trivial = images on which the independent reader sees both generations of some key"
        },
    );
    let shard = args.num("shard", 0);
    let shards = args.num("shards", 1).max(1);
    let runs = args.num("runs", if args.thorough() { 200 } else { 8 });
    let scratch = storeutil::Scratch(storeutil::scratch_dir(&format!("sweep{shard}")));
    for r in 0..runs {
        if r % shards != shard {
            continue;
        }
        let f = match mode.as_str() {
            "sweeper" => sweeper_run(&mut report, args.seed, r, &scratch.0),
            "bigretire" => bigretire_run(&mut report, args.seed, r, &scratch.0),
            "midread" => midread_run(&mut report, args.seed, r, &scratch.0).or_else(|| ttlchain_run(&mut report, args.seed, r, &scratch.0)),
            _ => ttlcrash_run(&mut report, args.seed, r, &scratch.0),
        };
        if let Some((sig, msg)) = f {
            report.violation(sig, msg, json!({"engine": "sweep", "mode": mode, "seed": args.seed, "run": r}));
            if report.violations.len() >= 3 {
                break;
            }
        }
    }
    crate::engines::crash::REAPER.wait();
    report
}

// ------------------------------------------------------------------ midread

thread_local! {
    static MIDREAD_KEY: std::cell::RefCell<Option<(Vec<u8>, u64)>> = const { std::cell::RefCell::new(None) };
}

/// While a value-reading call sits between its index lookup and pinning the extent of a value that
/// lives on the device only (hook point `read.before_pin`), the key is given a new generation with a
/// 1 s TTL which is flushed (the old extent is retired) and the clock jumps 5 s: what the call finds
/// when it retries is an *expired* generation, which no value-reading call may return (C11). Also:
/// the key is deleted / replaced under the call (results must be genuine values or not-found).
/// TTL-only updates chained while the flusher is busy with the previous one: the value lives on the device only
/// (flushed, no cache); `update_ttl` #1 creates a deferred generation, the flusher takes it and is held just before
/// it publishes the new sector (`flush.before_publish`); `update_ttl` / `persist` #2 (and sometimes #3) run in that
/// window. Afterwards - explicit flush, retirement passes - every value-reading call must still serve the value,
/// `flush()` must succeed, and a restart must show the LAST expiry.
fn ttlchain_run(report: &mut Report, seed: u64, rid: u64, dir: &str) -> Option<(String, String)> {
    let mut rng = Rng::derive(seed, rid, 0x77c4);
    let mut cfg = Cfg::disk(16 + 256);
    cfg.ttl = true;
    cfg.cache = false;
    cfg.cpus = *rng.pick(&[2usize, 4, 8]);
    cfg.sync_io = rng.chance(1, 2);
    let path = format!("{dir}/ttlchain-{rid}.feox");
    let _ = std::fs::remove_file(&path);
    let store = Arc::new(storeutil::open(&cfg, Some(&path)).ok()?);
    let fail = |sig: &str, msg: String| Some((sig.to_string(), msg));
    let mut failure = None;
    for round in 0..6u64 {
        let k = format!("tc-{rid}-{round}").into_bytes();
        let v = values::make(Tag { key_id: kid(&k), writer: 0, seq: 1 }, 60 + rng.usize_below(9000));
        if store.insert_with_ttl(&k, &v, 500).is_err() || store.flush().is_err() {
            continue;
        }
        if store.verif_entry(&k).is_none_or(|e| e.resident) {
            continue;
        }
        let ctl = Arc::new(SchedCtl::new(seed ^ rid ^ round, 0, 0).target("flush.before_publish", 1000, 40_000));
        hub().set_sched(Some(ctl.clone()));
        if store.update_ttl(&k, 1000).is_err() {
            hub().set_sched(None);
            continue;
        }
        // wait until a flusher (periodic tick, 100 ms) has taken the deferred generation and sits in front of the
        // sector publish, then chain the next TTL-only update(s) inside that window
        let t0 = std::time::Instant::now();
        let mut in_window = false;
        while t0.elapsed() < Duration::from_millis(600) {
            if ctl.summary().iter().any(|(p, arrivals, _, _)| *p == "flush.before_publish" && *arrivals > 0) {
                in_window = true;
                break;
            }
            std::thread::sleep(Duration::from_micros(300));
        }
        let mut last_ttl: Option<u64> = Some(1000);
        for step in 0..(1 + rng.below(2)) {
            if rng.chance(1, 3) {
                if store.persist(&k).is_ok() {
                    last_ttl = None;
                }
            } else {
                let t = 2000 + step * 500 + rng.below(100);
                if store.update_ttl(&k, t).is_ok() {
                    last_ttl = Some(t);
                }
            }
        }
        let expiry_after = store.verif_entry(&k).map(|e| e.ttl_expiry);
        std::thread::sleep(Duration::from_millis(60));
        hub().set_sched(None);
        report.evaluations += 1;
        report.count("ttl_chain_rounds", 1);
        if in_window {
            report.count("ttl_chain_rounds_inside_the_publish_window", 1);
            report.nontrivial.insert(fnv_mix(fnv_mix(rid, round), 0x77));
        }
        let flushed = store.flush();
        let _ = store.flush();
        let checks: Vec<(&str, Result<Vec<u8>, String>)> = vec![
            ("get", store.get(&k).map_err(|e| err_name(&e))),
            ("get_bytes", store.get_bytes(&k).map(|b| b.to_vec()).map_err(|e| err_name(&e))),
            ("range_query", store.range_query(&k, &k, 4).map_err(|e| err_name(&e)).and_then(|r| r.into_iter().next().map(|p| p.1).ok_or_else(|| "empty".to_string()))),
        ];
        for (what, got) in checks {
            if got.as_ref().ok() != Some(&v) {
                failure = fail("ttlchain:value-lost", format!("key {} lives on the device only; after TTL-only updates chained while the flusher was publishing the first one ({}in the window), {what} answers {:?} instead of the value (flush: {:?})", hex(&k), if in_window { "" } else { "not " }, got.map(|b| values::describe(&b)), flushed.as_ref().map_err(err_name)));
                break;
            }
        }
        if failure.is_none() {
            if let Err(e) = &flushed {
                failure = fail("ttlchain:flush-fails", format!("flush() after chained TTL-only updates of {} fails with {}", hex(&k), err_name(e)));
            }
        }
        if failure.is_some() {
            break;
        }
        // restart: the last expiry survives
        if round == 5 || rng.chance(1, 3) {
            let _ = last_ttl;
            let want = expiry_after;
            drop(store);
            let store2 = match storeutil::open(&cfg, Some(&path)) {
                Ok(s) => s,
                Err(e) => return fail("ttlchain:reopen", format!("reopen failed: {e:?}")),
            };
            let got = store2.verif_entry(&k).map(|e| e.ttl_expiry);
            let val = store2.get(&k).ok();
            drop(store2);
            if got != want || val.as_ref() != Some(&v) {
                return fail("ttlchain:restart", format!("after a restart key {} has expiry {got:?} (before: {want:?}) and value {:?}", hex(&k), val.map(|b| values::describe(&b))));
            }
            report.count("ttl_chain_restarts", 1);
            let _ = std::fs::remove_file(&path);
            return None;
        }
    }
    hub().set_sched(None);
    drop(store);
    let _ = std::fs::remove_file(&path);
    failure
}

fn midread_run(report: &mut Report, seed: u64, rid: u64, dir: &str) -> Option<(String, String)> {
    let mut rng = Rng::derive(seed, rid, 0x31d7);
    let mut cfg = Cfg::disk(16 + 1024);
    cfg.ttl = true;
    cfg.cache = rid % 3 == 2;
    cfg.cpus = 2;
    let path = format!("{dir}/midread-{rid}.feox");
    let _ = std::fs::remove_file(&path);
    let store = Arc::new(storeutil::open(&cfg, Some(&path)).ok()?);
    let fail = |sig: &str, msg: String| Some((sig.to_string(), msg));
    let delivered = Arc::new(AtomicU64::new(0));
    let blocked = Arc::new(AtomicU64::new(0));
    {
        let (s, delivered, blocked) = (store.clone(), delivered.clone(), blocked.clone());
        hub().set_action(Some(Arc::new(move |point: &'static str| {
            if point != "read.before_pin" {
                return;
            }
            let Some((key, kind)) = MIDREAD_KEY.with(|k| k.borrow_mut().take()) else { return };
            // the disturbance runs on a helper thread: should the reading call hold a lock the writer
            // needs, the helper just does not finish in time and the call goes on undisturbed
            let (tx, rx) = std::sync::mpsc::channel();
            let s2 = s.clone();
            std::thread::spawn(move || {
                match kind {
                    0 => {
                        let _ = s2.insert_with_ttl(&key, &values::make(Tag { key_id: kid(&key), writer: 7, seq: 2 }, 77), 1);
                        let _ = s2.flush();
                        feoxdb::verif::advance_clock_ns(5 * NS);
                    }
                    1 => {
                        let _ = s2.delete(&key);
                        let _ = s2.flush();
                    }
                    _ => {
                        let _ = s2.insert(&key, &values::make(Tag { key_id: kid(&key), writer: 7, seq: 3 }, 99));
                        let _ = s2.flush();
                    }
                }
                let _ = tx.send(());
            });
            if rx.recv_timeout(Duration::from_secs(3)).is_ok() {
                delivered.fetch_add(1, Ordering::SeqCst);
            } else {
                blocked.fetch_add(1, Ordering::SeqCst);
            }
        })));
    }
    let mut failure = None;
    let ops = ["get", "get_bytes", "range_query", "compare_and_swap", "json_patch", "atomic_increment", "insert_if_absent"];
    'outer: for round in 0..(ops.len() * 3) as u64 {
        let op = ops[round as usize % ops.len()];
        let kind = (round / ops.len() as u64 + rid) % 3;
        let k = format!("mr-{rid}-{round:02}").into_bytes();
        // the first generation: durable, on the device only
        let v1: Vec<u8> = match op {
            "json_patch" => br#"{"l":[1],"pad":"xxxxxxxxxxxxxxxxxxxxxxxxxxxxxxxx"}"#.to_vec(),
            "atomic_increment" => 1000i64.to_le_bytes().to_vec(),
            _ => values::make(Tag { key_id: kid(&k), writer: 0, seq: 1 }, 60 + rng.usize_below(5000)),
        };
        if store.insert(&k, &v1).is_err() || store.flush().is_err() {
            continue;
        }
        if store.verif_entry(&k).is_none_or(|e| e.resident) {
            continue; // value still in memory: the call would not go to the device
        }
        let before = delivered.load(Ordering::SeqCst);
        MIDREAD_KEY.with(|c| *c.borrow_mut() = Some((k.clone(), kind)));
        let genuine = |v: &[u8]| v == v1.as_slice() || values::check(v).is_ok_and(|t| t.key_id == kid(&k));
        let outcome: Result<String, String> = match op {
            "get" => store.get(&k).map(|v| if genuine(&v) { format!("value {}", values::describe(&v)) } else { format!("GARBAGE {}", values::describe(&v)) }).map_err(|e| err_name(&e)),
            "get_bytes" => store.get_bytes(&k).map(|v| if genuine(&v) { format!("value {}", values::describe(&v)) } else { format!("GARBAGE {}", values::describe(&v)) }).map_err(|e| err_name(&e)),
            "range_query" => store.range_query(&k, &k, 10).map(|r| match r.first() { Some((_, v)) if genuine(v) => format!("value {}", values::describe(v)), Some((_, v)) => format!("GARBAGE {}", values::describe(v)), None => "empty".to_string() }).map_err(|e| err_name(&e)),
            "compare_and_swap" => store.compare_and_swap(&k, &v1, b"swapped-in-by-the-probe-swapped-in").map(|b| format!("swapped={b}")).map_err(|e| err_name(&e)),
            "json_patch" => store.json_patch(&k, br#"[{"op":"add","path":"/l/-","value":2}]"#).map(|_| "patched".to_string()).map_err(|e| err_name(&e)),
            "atomic_increment" => store.atomic_increment(&k, 5).map(|n| format!("counter={n}")).map_err(|e| err_name(&e)),
            _ => store.insert_if_absent(&k, b"inserted-because-absent-inserted-because").map(|b| format!("inserted={b}")).map_err(|e| err_name(&e)),
        };
        MIDREAD_KEY.with(|c| *c.borrow_mut() = None);
        let disturbed = delivered.load(Ordering::SeqCst) > before;
        report.evaluations += 1;
        if !disturbed {
            report.count("midread_calls_not_disturbed", 1);
            continue;
        }
        report.count(&format!("midread_disturbed_kind_{kind}"), 1);
        report.nontrivial.insert(fnv_mix(fnv_mix(rid, round), kind));
        let text = match &outcome {
            Ok(s) => s.clone(),
            Err(e) => format!("Err({e})"),
        };
        if text.contains("GARBAGE") {
            failure = fail("midread:not-genuine", format!("{op}({}) disturbed mid-read (kind {kind}) returned bytes that were never stored under the key: {text}", hex(&k)));
            break 'outer;
        }
        if kind == 0 {
            // whatever the call meets after the disturbance has expired 4 s ago
            let bad = match op {
                "get" | "get_bytes" | "range_query" => text.starts_with("value"),
                "compare_and_swap" => text == "swapped=true",
                "json_patch" => text == "patched",
                "atomic_increment" => outcome.is_ok() && text != "counter=5",
                _ => false,
            };
            if bad {
                failure = fail(
                    "midread:expired-generation-served",
                    format!("{op}({}) was overtaken, between its index lookup and pinning the extent, by a generation with a 1 s TTL that was flushed and had expired 4 s before the call went on; the call answered {text}", hex(&k)),
                );
                break 'outer;
            }
            if let Ok(v) = store.get(&k) {
                let fresh = matches!(op, "atomic_increment" | "insert_if_absent") && values::check(&v).is_err();
                if !fresh {
                    failure = fail("ttl:visible-after-expiry", format!("get({}) still answers {} after the TTL generation expired", hex(&k), values::describe(&v)));
                    break 'outer;
                }
            }
        }
    }
    hub().set_action(None);
    report.count("midread_disturbances_delivered", delivered.load(Ordering::SeqCst));
    report.count("midread_disturbances_blocked", blocked.load(Ordering::SeqCst));
    drop(store);
    let _ = std::fs::remove_file(&path);
    failure
}
