//! E-conc: concurrent engines.
//!  * `lin`      (C07, C16): thousands of short multi-threaded histories on hot keys,
//!                recorded at the client boundary and checked per key for linearizability.
//!  * `reuse`    (C08, C16): readers racing writers/deleters/TTL rewrites/flushes on tiny
//!                devices where freed extents are reused at once; genuineness + recency of
//!                every value read, and the pinned-extent monitor.
//!  * `memlimit` (C13): concurrent creators/growers/deleters against a memory limit.
//!  * `scan`     (C14): range scans racing churn on neighbouring keys.

use crate::args::Args;
use crate::lin::{self, Event, OpKind, Res, St, Verdict};
use crate::mon::{hub, SchedCtl};
use crate::report::{hex, Report};
use crate::rng::{fnv, fnv_mix, Rng};
use crate::storeutil::{self, err_name, Cfg};
use crate::values::{self, Tag};
use feoxdb::{FeoxError, FeoxStore};
use serde_json::json;
use std::collections::{BTreeMap, HashMap};
use std::sync::atomic::{AtomicBool, AtomicU64, Ordering};
use std::sync::{Arc, Barrier};

static TICK: AtomicU64 = AtomicU64::new(1);
fn tick() -> u64 {
    TICK.fetch_add(1, Ordering::SeqCst)
}

fn res_err(e: FeoxError) -> Res {
    match e {
        FeoxError::KeyNotFound => Res::NotFound,
        FeoxError::OlderTimestamp => Res::Older,
        FeoxError::InvalidOperation => Res::InvalidOp,
        other => Res::Other(err_name(&other)),
    }
}

fn apply(store: &FeoxStore, key: &[u8], op: &OpKind) -> Res {
    match op {
        OpKind::Get => store.get(key).map(Res::Value).unwrap_or_else(res_err),
        // odd-length values take the zero-copy Bytes entry point, even-length ones the slice entry point
        OpKind::Insert(v, t) if v.len() % 2 == 1 => store.insert_bytes_with_timestamp(key, bytes::Bytes::copy_from_slice(v), *t).map(Res::Bool).unwrap_or_else(res_err),
        OpKind::Insert(v, t) => store.insert_with_timestamp(key, v, *t).map(Res::Bool).unwrap_or_else(res_err),
        OpKind::Delete(t) => store.delete_with_timestamp(key, *t).map(|_| Res::Unit).unwrap_or_else(res_err),
        OpKind::Cas(e, n, t) => store.compare_and_swap_with_timestamp(key, e, n, *t).map(Res::Bool).unwrap_or_else(res_err),
        OpKind::Incr(d, t) => store.atomic_increment_with_timestamp(key, *d, *t).map(Res::Int).unwrap_or_else(res_err),
        OpKind::InsertIfAbsent(v) => store.insert_if_absent(key, v).map(Res::Bool).unwrap_or_else(res_err),
        OpKind::PatchAppend(x, t) => {
            let patch = format!(r#"[{{"op":"add","path":"/l/-","value":{x}}}]"#);
            store.json_patch_with_timestamp(key, patch.as_bytes(), *t).map(|_| Res::Unit).unwrap_or_else(res_err)
        }
    }
}

#[derive(Clone, Copy, PartialEq, Eq, Debug)]
enum KeyKind {
    Reg,
    Ctr,
    Doc,
}

struct Planned {
    key: usize,
    op: OpKind,
}

const TARGETS: &[&str] = &[
    "read.before_pin",
    "insert.after_read",
    "update.before_entry",
    "cas.before_swap",
    "incr.before_swap",
    "patch.before_swap",
    "update.before_enqueue",
    "delete.before_enqueue",
    "insert.before_enqueue",
    "mem.reserved",
    "read.pinned",
    "read.after_pread",
    "flush.before_publish",
];

fn absorb_sched(report: &mut Report, ctl: &SchedCtl) {
    for (point, arrivals, sleeps, exercised) in ctl.summary() {
        if arrivals > 0 {
            report.count(&format!("sched_{point}_arrivals"), arrivals);
            report.count(&format!("sched_{point}_perturbed"), sleeps);
            report.count(&format!("sched_{point}_exercised"), exercised);
        }
    }
}

// ------------------------------------------------------------------ lin

pub fn run_lin(args: &Args, report: &mut Report) {
    let shard = args.num("shard", 0);
    let thorough = args.thorough();
    let histories = args.num("histories", if thorough { 25_000 } else { 700 });
    // shard decides regime and storage mode
    let explicit = shard % 2 == 0;
    let storage = (shard / 2) % 3; // 0 memory, 1 persistent+cache, 2 persistent no cache
    let dir = storeutil::Scratch(storeutil::scratch_dir(&format!("lin{shard}")));
    let mut cfg = if storage == 0 { Cfg::memory() } else { Cfg::disk(16 + 16384) };
    cfg.cache = storage == 1;
    cfg.cpus = [0usize, 2, 8, 16][(shard as usize / 6) % 4];
    let path = format!("{}/lin.feox", dir.0);
    let store = match storeutil::open(&cfg, if cfg.persistent { Some(&path) } else { None }) {
        Ok(s) => Arc::new(s),
        Err(e) => {
            report.inconclusive.push(format!("open failed: {e:?}"));
            return;
        }
    };
    let label = format!("{}-{}", cfg.label(), if explicit { "explicit" } else { "auto" });
    let stop = Arc::new(AtomicBool::new(false));
    let flusher = if cfg.persistent {
        let (s, stop) = (store.clone(), stop.clone());
        Some(std::thread::spawn(move || {
            let mut rng = Rng::new(77);
            while !stop.load(Ordering::Relaxed) {
                let _ = s.flush();
                std::thread::sleep(std::time::Duration::from_micros(rng.range(0, 3000)));
            }
        }))
    } else {
        None
    };
    let base_ts: u64 = std::time::SystemTime::now().duration_since(std::time::UNIX_EPOCH).unwrap().as_nanos() as u64 + 1_000_000_000_000_000;
    let mut h = 0u64;
    let batch = 50;
    'outer: while h < histories {
        let target = TARGETS[((h / batch) as usize + shard as usize) % TARGETS.len()];
        // a reader held back before it pins a device-resident value meets generations that were replaced,
        // made durable elsewhere and retired in the meantime (the flusher thread of persistent histories)
        let ctl = Arc::new(SchedCtl::new(args.seed ^ h, 40, 150).target(target, 350, if target == "read.before_pin" { 900 } else { 250 }));
        hub().set_sched(Some(ctl.clone()));
        for _ in 0..batch {
            h += 1;
            let hid = h * args.num("shards", 1).max(1) + shard;
            if !explicit && h % 50 == 7 {
                if let Some((sig, msg, replay)) = expired_insert_if_absent_races(report, args.seed, hid, &label) {
                    report.violation(sig, msg, replay);
                    break 'outer;
                }
            }
            if explicit && h % 10 == 5 {
                if let Some((sig, msg, replay)) = scripted_overtaken(&store, report, args.seed, hid, base_ts + hid * 10_000 + 2_000, &label) {
                    report.violation(sig, msg, replay);
                    break 'outer;
                }
                hub().set_sched(Some(ctl.clone()));
            }
            if explicit && h % 10 == 0 {
                if let Some((sig, msg, replay)) = scripted_aba(&store, report, args.seed, hid, base_ts + hid * 10_000 + 5_000, &label) {
                    report.violation(sig, msg, replay);
                    break 'outer;
                }
                hub().set_sched(Some(ctl.clone()));
            }
            if let Some((sig, msg, replay)) = one_history(&store, &cfg, args.seed, hid, explicit, base_ts + hid * 10_000, report, &label) {
                report.violation(sig, msg, replay);
                if report.violations.len() >= 3 {
                    break 'outer;
                }
            }
        }
        hub().set_sched(None);
        absorb_sched(report, &ctl);
    }
    hub().set_sched(None);
    stop.store(true, Ordering::Relaxed);
    if let Some(f) = flusher {
        let _ = f.join();
    }
    report.count(&format!("histories_{label}"), h);
    // quiescent accounting after thousands of same-key races (C13): exact equality, then zero after drain
    if report.violations.is_empty() {
        let probe = storeutil::open(&Cfg::memory(), None).ok();
        let overhead = probe.map(|s| {
            let _ = s.insert(b"p", b"v");
            s.memory_usage() - 2
        });
        if let Some(overhead) = overhead {
            let _ = store.flush();
            let snap = store.verif_snapshot();
            let sum: usize = snap.entries.iter().map(|e| overhead + e.key.len() + e.value_len).sum();
            if store.memory_usage() != sum || store.len() != snap.entries.len() {
                report.violation(
                    "mem:drift-after-same-key-races",
                    format!("[{label}] after {h} concurrent histories: memory_usage() = {} but the {} live keys add up to {}; len() = {}", store.memory_usage(), snap.entries.len(), sum, store.len()),
                    json!({"engine": "conc", "mode": "lin", "seed": args.seed, "shard": shard, "label": label}),
                );
            } else {
                for e in &snap.entries {
                    let _ = store.delete_with_timestamp(&e.key, if explicit { Some(base_ts + (histories + 10) * 10_000 * args.num("shards", 1).max(1)) } else { None });
                }
                if store.memory_usage() != 0 && store.len() == 0 {
                    report.violation("mem:nonzero-after-drain", format!("[{label}] memory_usage {} after deleting every key", store.memory_usage()), json!({"engine": "conc", "mode": "lin", "seed": args.seed, "shard": shard}));
                }
                report.count("quiescent_accounting_checks", 1);
            }
        }
    }
}

fn one_history(store: &Arc<FeoxStore>, cfg: &Cfg, seed: u64, hid: u64, explicit: bool, base_ts: u64, report: &mut Report, label: &str) -> Option<(String, String, serde_json::Value)> {
    let mut rng = Rng::derive(seed, hid, 0x11a);
    let nthreads = 2 + rng.usize_below(3);
    let nkeys = 1 + rng.usize_below(3);
    let kinds: Vec<KeyKind> = (0..nkeys).map(|_| *rng.pick(&[KeyKind::Reg, KeyKind::Reg, KeyKind::Ctr, KeyKind::Doc])).collect();
    let keys: Vec<Vec<u8>> = (0..nkeys).map(|j| format!("h{hid}-k{j}").into_bytes()).collect();
    let mut seq = 0u32;
    let mut rank = 0u64;
    let mut next_ts = |rank: &mut u64| -> Option<u64> {
        if explicit {
            *rank += 1;
            Some(base_ts + *rank)
        } else {
            None
        }
    };
    // candidate values per key (so CAS has a chance to match)
    let mut vals: Vec<Vec<Vec<u8>>> = vec![Vec::new(); nkeys];
    let mut mkval = |j: usize, rng: &mut Rng, seq: &mut u32| -> Vec<u8> {
        *seq += 1;
        match kinds[j] {
            KeyKind::Reg => values::make(Tag { key_id: (fnv(&keys[j]) & 0xffff_ffff) as u32, writer: 0, seq: *seq }, rng.range(22, 200) as usize),
            KeyKind::Ctr => (rng.range(0, 1000) as i64).to_le_bytes().to_vec(),
            KeyKind::Doc => format!("{{\"l\":[],\"n\":{}}}", *seq).into_bytes(),
        }
    };
    // initial state
    let mut init: Vec<St> = Vec::new();
    for j in 0..nkeys {
        if rng.chance(2, 3) {
            let v = mkval(j, &mut rng, &mut seq);
            let mut t = next_ts(&mut rank);
            // automatic regime: a third of the initial generations carry an explicit timestamp a day ahead of the
            // wall clock. Every automatic call of the history must still be accepted (an automatic version exceeds
            // everything accepted for the key), so a call that stamps its write from anything but the key's clock
            // shows up as a refusal that no concurrent modification explains
            if !explicit && rng.chance(1, 3) {
                let now = std::time::SystemTime::now().duration_since(std::time::UNIX_EPOCH).map(|d| d.as_nanos() as u64).unwrap_or(0);
                t = Some(now + 86_400_000_000_000 + hid * 1_000 + j as u64);
                report.count("auto_histories_future_dated_initial", 1);
            }
            if let Err(e) = store.insert_with_timestamp(&keys[j], &v, t) {
                report.inconclusive.push(format!("history setup insert failed: {e:?}"));
                return None;
            }
            vals[j].push(v.clone());
            init.push(St { v: Some((v, t)) });
        } else {
            init.push(St { v: None });
        }
    }
    if cfg.persistent && rng.chance(1, 2) {
        let _ = store.flush(); // race against offloaded generations
    }
    // plan
    let mut plans: Vec<Vec<Planned>> = Vec::new();
    let mut total_ops = 0;
    for _ in 0..nthreads {
        let n = 3 + rng.usize_below(6);
        let mut ops = Vec::new();
        for _ in 0..n {
            let j = rng.usize_below(nkeys);
            let op = match (kinds[j], rng.below(10)) {
                (_, 0..=1) => OpKind::Get,
                (_, 2) => OpKind::Delete(None),
                (KeyKind::Reg, 3..=5) => {
                    let v = mkval(j, &mut rng, &mut seq);
                    vals[j].push(v.clone());
                    OpKind::Insert(v, None)
                }
                (KeyKind::Reg, 6..=7) => {
                    let n = mkval(j, &mut rng, &mut seq);
                    let e = if vals[j].is_empty() { n.clone() } else { rng.pick(&vals[j]).clone() };
                    vals[j].push(n.clone());
                    OpKind::Cas(e, n, None)
                }
                (KeyKind::Reg, _) => {
                    if explicit {
                        let v = mkval(j, &mut rng, &mut seq);
                        vals[j].push(v.clone());
                        OpKind::Insert(v, None)
                    } else {
                        let v = mkval(j, &mut rng, &mut seq);
                        vals[j].push(v.clone());
                        OpKind::InsertIfAbsent(v)
                    }
                }
                (KeyKind::Ctr, 3..=7) => OpKind::Incr(rng.range(1, 9) as i64, None),
                (KeyKind::Ctr, _) => OpKind::Insert(mkval(j, &mut rng, &mut seq), None),
                (KeyKind::Doc, 3..=7) => {
                    seq += 1;
                    OpKind::PatchAppend(seq as u64, None)
                }
                (KeyKind::Doc, _) => OpKind::Insert(mkval(j, &mut rng, &mut seq), None),
            };
            ops.push(Planned { key: j, op });
            total_ops += 1;
        }
        plans.push(ops);
    }
    // assign unique explicit timestamps in a random order over all writes
    if explicit {
        let mut order: Vec<(usize, usize)> = Vec::new();
        for (t, ops) in plans.iter().enumerate() {
            for i in 0..ops.len() {
                order.push((t, i));
            }
        }
        rng.shuffle(&mut order);
        // now and then a write re-uses a timestamp already given to an earlier write of the same key in this
        // history (legal for the application; a re-creation after a delete may then carry the very timestamp of
        // the generation that was deleted)
        // (the initial generation's timestamp counts as given: a delete followed by a re-creation at exactly that
        // timestamp is the case that tells "same record" from "same timestamp")
        let mut given: Vec<Vec<Option<u64>>> = init.iter().map(|s| s.v.as_ref().map(|(_, t)| vec![*t]).unwrap_or_default()).collect();
        for (t, i) in order {
            let key = plans[t][i].key;
            let reuse = matches!(plans[t][i].op, OpKind::Insert(..)) && !given[key].is_empty() && rng.chance(1, 5);
            let ts = if reuse { *rng.pick(&given[key]) } else { next_ts(&mut rank) };
            given[key].push(ts);
            match &mut plans[t][i].op {
                OpKind::Insert(_, x) | OpKind::Delete(x) | OpKind::Cas(_, _, x) | OpKind::Incr(_, x) | OpKind::PatchAppend(_, x) => *x = ts,
                _ => {}
            }
        }
    }
    // run
    let barrier = Arc::new(Barrier::new(nthreads + usize::from(cfg.persistent)));
    let mut handles = Vec::new();
    let keys = Arc::new(keys);
    // persistent stores: explicit flushes race the history (not part of it: flush is not a map operation), so
    // that replaced generations are retired and values move to the device while calls are in flight
    let flusher = cfg.persistent.then(|| {
        let (store, barrier) = (store.clone(), barrier.clone());
        std::thread::spawn(move || {
            barrier.wait();
            for _ in 0..4 {
                let _ = store.flush();
                std::thread::sleep(std::time::Duration::from_micros(150));
            }
        })
    });
    for (t, ops) in plans.into_iter().enumerate() {
        let (store, barrier, keys) = (store.clone(), barrier.clone(), keys.clone());
        handles.push(std::thread::spawn(move || {
            let mut out: Vec<(usize, Event)> = Vec::with_capacity(ops.len());
            barrier.wait();
            for p in ops {
                let inv = tick();
                let res = crate::callwatch::watched(p.op.name(), || apply(&store, &keys[p.key], &p.op));
                let ret = tick();
                hub().op_done();
                out.push((p.key, Event { thread: t, op: p.op, res, inv, ret }));
            }
            out
        }));
    }
    if let Some(f) = flusher {
        let _ = f.join();
    }
    let mut per_key: Vec<Vec<Event>> = vec![Vec::new(); nkeys];
    for hnd in handles {
        match hnd.join() {
            Ok(evs) => {
                for (k, e) in evs {
                    per_key[k].push(e);
                }
            }
            Err(_) => {
                return Some(("lin:panic".into(), "a client thread panicked inside the store".into(), json!({"engine": "conc", "mode": "lin", "seed": seed, "history": hid, "label": label})));
            }
        }
    }
    // final reads, after everything returned
    for j in 0..nkeys {
        let inv = tick();
        let res = apply(store, &keys[j], &OpKind::Get);
        let ret = tick();
        // quiescent cross-check of the two indexes through the public API (C14)
        if let Ok(pairs) = store.range_query(&keys[j], &keys[j], 10) {
            let by_range = pairs.first().map(|p| p.1.clone());
            let by_get = match &res {
                Res::Value(v) => Some(v.clone()),
                _ => None,
            };
            if by_range != by_get {
                return Some((
                    "lin:index-disagree".into(),
                    format!("[{label}] at quiescence get({}) = {:?} but range_query over exactly that key = {:?}", hex(&keys[j]), by_get.as_ref().map(|v| values::describe(v)), by_range.as_ref().map(|v| values::describe(v))),
                    json!({"engine": "conc", "mode": "lin", "seed": seed, "history": hid, "label": label}),
                ));
            }
        }
        per_key[j].push(Event { thread: 99, op: OpKind::Get, res, inv, ret });
    }
    report.evaluations += 1;
    report.count("ops", total_ops as u64);
    let mut overlapped = false;
    let mut violation = None;
    for j in 0..nkeys {
        let evs = &per_key[j];
        // real overlap between two operations of different threads on this key?
        let ov = evs.iter().enumerate().any(|(a, x)| evs.iter().skip(a + 1).any(|y| x.thread != y.thread && x.inv < y.ret && y.inv < x.ret && (x.accepted() || y.accepted())));
        overlapped |= ov;
        match lin::check_key(evs, init[j].clone(), 2_000_000) {
            Verdict::Ok { deviations_older, deviations_cas } => {
                report.count("keys_checked", 1);
                report.count("deviation_older_used", deviations_older as u64);
                report.count("deviation_cas_used", deviations_cas as u64);
            }
            Verdict::Inconclusive => {
                report.inconclusive.push(format!("history {hid} key {j}: checker budget exceeded"));
            }
            Verdict::Violation(msg) => {
                let sig = format!("lin:{}:{:?}", if explicit { "explicit" } else { "auto" }, kinds[j]);
                violation = Some((
                    sig,
                    format!("[{label}] key {} ({:?}), initial {:?}: {}", hex(&keys[j]), kinds[j], init[j].v.as_ref().map(|(v, t)| (values::describe(v), *t)), msg),
                    json!({"engine": "conc", "mode": "lin", "seed": seed, "history": hid, "label": label, "threads": nthreads}),
                ));
            }
        }
    }
    if overlapped {
        let shape = per_key.iter().map(|e| e.iter().fold(0u64, |h, ev| fnv_mix(h, fnv(format!("{:?}{:?}", std::mem::discriminant(&ev.op), std::mem::discriminant(&ev.res)).as_bytes())))).fold(hid, fnv_mix);
        report.nontrivial.insert(shape);
        report.count("histories_with_real_overlap", 1);
    }
    if report.samples.len() < 2 && overlapped {
        report.sample(json!({"history": hid, "label": label, "threads": nthreads,
            "key0_events": per_key[0].iter().map(|e| format!("t{} [{}..{}] {} -> {}", e.thread, e.inv, e.ret, lin::brief_op(&e.op), lin::brief_res(&e.res))).collect::<Vec<_>>()}));
    }
    // clean up so the store does not grow
    for k in keys.iter() {
        let _ = store.delete_with_timestamp(k, if explicit { Some(base_ts + 9_999) } else { None });
    }
    violation
}

/// Racing insert-if-absent on a key whose only generation has EXPIRED but has not been swept: whatever the store
/// makes of such a key (still "taken", or free again), at most one of the racing callers may be told that it
/// created the key, and afterwards the key holds that caller's value or nothing. Own small TTL store per batch.
fn expired_insert_if_absent_races(report: &mut Report, seed: u64, hid: u64, label: &str) -> Option<(String, String, serde_json::Value)> {
    let store = Arc::new(FeoxStore::builder().hash_bits(6).enable_ttl(true).no_memory_limit().build().ok()?);
    for round in 0..40u64 {
        let key = format!("xp{hid}-{round}").into_bytes();
        if store.insert_with_ttl(&key, b"generation-that-expires", 1).is_err() {
            continue;
        }
        feoxdb::verif::advance_clock_ns(3_000_000_000);
        let n = 4usize;
        let barrier = Arc::new(Barrier::new(n));
        let hs: Vec<_> = (0..n)
            .map(|t| {
                let (store, key, barrier) = (store.clone(), key.clone(), barrier.clone());
                std::thread::spawn(move || {
                    let v = values::make(Tag { key_id: 9, writer: t as u16, seq: round as u32 }, 30 + t);
                    barrier.wait();
                    (t, store.insert_if_absent(&key, &v), v)
                })
            })
            .collect();
        let results: Vec<_> = hs.into_iter().filter_map(|h| h.join().ok()).collect();
        let winners: Vec<&(usize, feoxdb::Result<bool>, Vec<u8>)> = results.iter().filter(|r| matches!(r.1, Ok(true))).collect();
        let after = store.get(&key).ok();
        report.count("expired_key_insert_if_absent_races", 1);
        let bad = if winners.len() > 1 {
            Some(format!("{} racing insert_if_absent calls were all told they created the key", winners.len()))
        } else if winners.len() == 1 && after.as_ref() != Some(&winners[0].2) {
            Some(format!("the single winner's value is not what the key holds afterwards ({:?})", after.as_ref().map(|v| values::describe(v))))
        } else if winners.is_empty() && after.is_some() {
            Some("nobody was told it created the key, yet the key has a readable value".to_string())
        } else {
            None
        };
        if let Some(why) = bad {
            return Some((
                "lin:insert-if-absent-on-expired-key".into(),
                format!("[{label}] key {} held one expired, unswept generation; 4 callers raced insert_if_absent: {why} (answers: {:?})", hex(&key), results.iter().map(|r| format!("{:?}", r.1.as_ref().map_err(|e| crate::storeutil::err_name(e)))).collect::<Vec<_>>()),
                json!({"engine": "conc", "mode": "lin", "seed": seed, "history": hid, "label": label, "scripted": "expired-insert-if-absent"}),
            ));
        }
        let _ = store.delete(&key);
    }
    None
}

/// Scripted "overtaken writer" histories: a call carrying an explicit timestamp Tw (upsert through the slice or
/// the Bytes entry point, increment, compare-and-swap, JSON patch) is held for 500 us after it has read the key's
/// generation; meanwhile another thread performs a seeded sequence of 1-3 modifications of that key - replacements
/// by CAS / patch / increment / upsert with timestamps below or above Tw, a delete at, above or below Tw, a
/// re-creation - and then the first call resumes. The history goes through the same per-key checker: whatever the
/// held call answers must be explainable (e.g. it may not be accepted on top of a delete that carries Tw or more).
fn scripted_overtaken(store: &Arc<FeoxStore>, report: &mut Report, seed: u64, hid: u64, base_ts: u64, label: &str) -> Option<(String, String, serde_json::Value)> {
    let mut rng = Rng::derive(seed, hid, 0x0e7a);
    let kind = rng.below(3);
    let key = format!("ovt{hid}").into_bytes();
    let t0 = base_ts + 10;
    let tw = t0 + 500;
    let mut seq = 10u32;
    let mut mk = |rng: &mut Rng, seq: &mut u32| -> Vec<u8> {
        *seq += 1;
        match kind {
            0 => (rng.range(0, 1000) as i64).to_le_bytes().to_vec(),
            1 => values::make(Tag { key_id: 7, writer: 0, seq: *seq }, rng.range(22, 120) as usize),
            _ => format!("{{\"l\":[],\"n\":{}}}", *seq).into_bytes(),
        }
    };
    let v0 = mk(&mut rng, &mut seq);
    if store.insert_with_timestamp(&key, &v0, Some(t0)).is_err() {
        return None;
    }
    // the held call
    let (first, point) = match (kind, rng.below(3)) {
        (0, 0) | (0, 1) => (OpKind::Incr(rng.range(1, 9) as i64, Some(tw)), "incr.before_swap"),
        (1, 0) => (OpKind::Cas(v0.clone(), mk(&mut rng, &mut seq), Some(tw)), "cas.before_swap"),
        (2, 0) | (2, 1) => (OpKind::PatchAppend(77, Some(tw)), "patch.before_swap"),
        _ => (OpKind::Insert(mk(&mut rng, &mut seq), Some(tw)), "insert.after_read"),
    };
    hub().set_sched(Some(Arc::new(SchedCtl::new(seed ^ hid, 0, 0).target(point, 1000, 500))));
    let a = {
        let (store, key, first) = (store.clone(), key.clone(), first.clone());
        std::thread::spawn(move || {
            let inv = tick();
            let res = apply(&store, &key, &first);
            Event { thread: 0, op: first, res, inv, ret: tick() }
        })
    };
    std::thread::sleep(std::time::Duration::from_micros(150));
    // the overtaking sequence (this thread never arrives at a targeted point it would be held at for long: the
    // controller only delays, and 500 us per step is fine)
    let mut evs = Vec::new();
    let mut cur: Option<Vec<u8>> = Some(v0.clone());
    let mut low = t0; // timestamps handed out below Tw, increasing
    let steps = 1 + rng.usize_below(3);
    for step in 0..steps {
        low += 20;
        let below = Some(low);
        let at_or_above = Some(tw + [0u64, 0, 40, 300][rng.usize_below(4)] + step as u64);
        let op = match (rng.below(6), &cur) {
            (0, Some(c)) if kind == 1 => OpKind::Cas(c.clone(), mk(&mut rng, &mut seq), below),
            (0, Some(_)) if kind == 0 => OpKind::Incr(rng.range(1, 9) as i64, below),
            (0, Some(_)) => OpKind::PatchAppend(step as u64 + 1, below),
            (1, Some(_)) => OpKind::Delete(at_or_above),
            (2, Some(_)) => OpKind::Delete(below),
            (3, _) => OpKind::Insert(mk(&mut rng, &mut seq), below),
            (4, _) => OpKind::Insert(mk(&mut rng, &mut seq), at_or_above),
            (_, None) => OpKind::Insert(mk(&mut rng, &mut seq), below),
            (_, Some(c)) if kind == 1 => OpKind::Cas(c.clone(), mk(&mut rng, &mut seq), at_or_above),
            (_, Some(_)) => OpKind::Delete(at_or_above),
        };
        let inv = tick();
        let res = apply(store, &key, &op);
        // follow the value for the next CAS
        match (&op, &res) {
            (OpKind::Insert(v, _), Res::Bool(_)) => cur = Some(v.clone()),
            (OpKind::Cas(_, n, _), Res::Bool(true)) => cur = Some(n.clone()),
            (OpKind::Delete(_), Res::Unit) => cur = None,
            (OpKind::Incr(..), Res::Int(n)) => cur = Some(n.to_le_bytes().to_vec()),
            (OpKind::PatchAppend(..), Res::Unit) => cur = store.get(&key).ok(),
            _ => {}
        }
        evs.push(Event { thread: 1, op, res, inv, ret: tick() });
    }
    let ea = a.join().ok()?;
    hub().set_sched(None);
    let held = lin::brief_op(&ea.op);
    evs.push(ea);
    let inv = tick();
    let res = apply(store, &key, &OpKind::Get);
    evs.push(Event { thread: 99, op: OpKind::Get, res, inv, ret: tick() });
    report.count("scripted_overtaken_writer_histories", 1);
    let out = match lin::check_key(&evs, St { v: Some((v0.clone(), Some(t0))) }, 2_000_000) {
        Verdict::Violation(msg) => Some((
            format!("lin:scripted-overtaken:{}", ["Ctr", "Reg", "Doc"][kind as usize]),
            format!("[{label}] key {}: {held} was held after reading the key while {steps} other modification(s) completed: {msg}", hex(&key)),
            json!({"engine": "conc", "mode": "lin", "seed": seed, "history": hid, "label": label, "scripted": "overtaken"}),
        )),
        _ => None,
    };
    let _ = store.delete_with_timestamp(&key, Some(base_ts + 9_999));
    out
}

/// Scripted three-operation histories: a read-modify-write call (increment / compare-and-swap / JSON patch) is
/// held for 400 us between reading the value and swapping, while another thread deletes the key and re-creates
/// it with a different value at *exactly the timestamp of the generation the first call read*. The history goes
/// through the same per-key checker as the random ones: whatever the first call answers must be explainable.
fn scripted_aba(store: &Arc<FeoxStore>, report: &mut Report, seed: u64, hid: u64, base_ts: u64, label: &str) -> Option<(String, String, serde_json::Value)> {
    let kind = hid % 3;
    let key = format!("aba{hid}").into_bytes();
    let t0 = base_ts + 10;
    let (v0, v1): (Vec<u8>, Vec<u8>) = match kind {
        0 => (7i64.to_le_bytes().to_vec(), 100i64.to_le_bytes().to_vec()),
        1 => (values::make(Tag { key_id: 1, writer: 0, seq: 1 }, 40), values::make(Tag { key_id: 1, writer: 0, seq: 2 }, 44)),
        _ => (br#"{"l":[],"n":1}"#.to_vec(), br#"{"l":[9],"n":2}"#.to_vec()),
    };
    if store.insert_with_timestamp(&key, &v0, Some(t0)).is_err() {
        return None;
    }
    let point = ["incr.before_swap", "cas.before_swap", "patch.before_swap"][kind as usize];
    hub().set_sched(Some(Arc::new(SchedCtl::new(seed ^ hid, 0, 0).target(point, 1000, 400))));
    let first = match kind {
        0 => OpKind::Incr(1, if hid % 2 == 0 { Some(t0 + 30) } else { None }),
        1 => OpKind::Cas(v0.clone(), values::make(Tag { key_id: 1, writer: 1, seq: 3 }, 48), Some(t0 + 30)),
        _ => OpKind::PatchAppend(5, Some(t0 + 30)),
    };
    let a = {
        let (store, key, first) = (store.clone(), key.clone(), first.clone());
        std::thread::spawn(move || {
            let inv = tick();
            let res = apply(&store, &key, &first);
            Event { thread: 0, op: first, res, inv, ret: tick() }
        })
    };
    std::thread::sleep(std::time::Duration::from_micros(120));
    let mut evs = Vec::new();
    for op in [OpKind::Delete(Some(t0 + 5)), OpKind::Insert(v1.clone(), Some(t0))] {
        let inv = tick();
        let res = apply(store, &key, &op);
        evs.push(Event { thread: 1, op, res, inv, ret: tick() });
    }
    let ea = a.join().ok()?;
    hub().set_sched(None);
    evs.push(ea);
    let inv = tick();
    let res = apply(store, &key, &OpKind::Get);
    evs.push(Event { thread: 99, op: OpKind::Get, res, inv, ret: tick() });
    report.count("scripted_same_timestamp_recreations", 1);
    let out = match lin::check_key(&evs, St { v: Some((v0.clone(), Some(t0))) }, 2_000_000) {
        Verdict::Violation(msg) => Some((
            format!("lin:scripted-recreation:{}", ["Ctr", "Reg", "Doc"][kind as usize]),
            format!("[{label}] key {} was deleted and re-created at the timestamp of the generation a paused {} had read: {msg}", hex(&key), lin::brief_op(&evs[2].op)),
            json!({"engine": "conc", "mode": "lin", "seed": seed, "history": hid, "label": label, "scripted": true}),
        )),
        _ => None,
    };
    let _ = store.delete_with_timestamp(&key, Some(base_ts + 9_999));
    out
}

// ------------------------------------------------------------------ entry

pub fn run(args: &Args) -> Report {
    let mode = args.get("mode").unwrap_or("lin").to_string();
    let mut report = Report::new(
        "conc",
        match mode.as_str() {
            "lin" => "short concurrent histories (2-4 threads x 3-8 calls on 1-3 hot keys; get/insert/delete/CAS/increment/insert_if_absent/JSON-patch-append; explicit-unique-timestamp and automatic-timestamp regimes; memory-only and persistent with a flusher thread, cache on/off) recorded at the client boundary with a global logical clock and checked per key by a WGL linearizability search against the last-writer-wins register spec; only the two conservative refusals of the statement are tolerated, each under its side condition. Scheduling points (H3) are perturbed: jitter everywhere plus one targeted window per batch. distinct non-trivial = histories in which two threads' calls on one key really overlapped, by shape",
            "reuse" => "readers (get/get_bytes/range_query/never-matching CAS) racing single-writer-per-key updates (size classes 1-4 blocks), delete/recreate, TTL-only rewrites and a flush loop on 24-96-block devices so freed extents are reused at once; every value read must be a complete self-describing value of that key and admissible by the recorded write intervals; device writes are checked against extents pinned by readers. distinct non-trivial = reads served from the device (not memory) whose admissible window held >1 generation",
            "memlimit" => "8-16 threads of creators/growers/shrinkers/deleters/incrementers against a memory limit admitting only some of them; memory_usage() sampled by a monitor thread and while writers are parked between reservation and publish; exact equality at quiescence",
            _ => "range scans racing inserts/updates/deletes/flushes of neighbouring keys; order, bounds, limit, genuineness, completeness over the stable key set",
        },
    );
    match mode.as_str() {
        "lin" => run_lin(args, &mut report),
        "reuse" => crate::engines::conc2::run_reuse(args, &mut report),
        "memlimit" => crate::engines::conc2::run_memlimit(args, &mut report),
        "scan" => crate::engines::conc2::run_scan(args, &mut report),
        other => report.inconclusive.push(format!("unknown mode {other}")),
    }
    report
}

#[allow(dead_code)]
fn _unused(_: BTreeMap<u8, u8>, _: HashMap<u8, u8>) {}
