//! E-fsm (C06): the public FreeSpaceManager against a bitmap model.
//! (a) exhaustive over all (reachable state, call) pairs on tiny devices,
//! (b) long seeded random sequences on larger ones.

use crate::args::Args;
use crate::report::Report;
use crate::rng::{fnv_mix, Rng};
use feoxdb::storage::free_space::FreeSpaceManager;
use serde_json::json;
use std::collections::{HashMap, VecDeque};

const START: u64 = 16;
const BLOCK: u64 = 4096;

#[derive(Clone, Copy, Debug, PartialEq, Eq, Hash)]
enum Call {
    Alloc(u64),
    Release(u64, u64),
}

/// Reference: free[i] <=> block START+i is free.
#[derive(Clone, Debug, PartialEq, Eq, Hash)]
struct Model {
    free: Vec<bool>,
}

impl Model {
    fn new(data_blocks: usize) -> Self {
        Model { free: vec![true; data_blocks] }
    }
    fn runs(&self) -> Vec<(u64, u64)> {
        let mut runs = Vec::new();
        let mut i = 0;
        while i < self.free.len() {
            if self.free[i] {
                let s = i;
                while i < self.free.len() && self.free[i] {
                    i += 1;
                }
                runs.push((START + s as u64, (i - s) as u64));
            } else {
                i += 1;
            }
        }
        runs
    }
    fn total(&self) -> u64 {
        self.free.iter().filter(|f| **f).count() as u64
    }
    fn largest(&self) -> u64 {
        self.runs().iter().map(|r| r.1).max().unwrap_or(0)
    }
    fn release_ok(&self, s: u64, n: u64) -> bool {
        if s < START || n == 0 {
            return false;
        }
        let Some(end) = s.checked_add(n) else { return false };
        if end > START + self.free.len() as u64 {
            return false;
        }
        (s..end).all(|b| !self.free[(b - START) as usize])
    }
}

struct Sut {
    m: FreeSpaceManager,
}

impl Sut {
    /// `slack` bytes follow the last whole block: a device whose size is not a multiple of the block
    /// size has exactly `data_blocks` usable blocks, the trailing partial one is out of bounds.
    fn new(data_blocks: usize, slack: u64) -> Self {
        let mut m = FreeSpaceManager::new();
        m.initialize((START + data_blocks as u64) * BLOCK + slack).expect("initialize");
        Sut { m }
    }
}

/// Apply `call` to both, compare everything. Returns Err(description) on disagreement.
fn step(sut: &mut Sut, model: &mut Model, call: Call) -> Result<&'static str, String> {
    let before = model.clone();
    let outcome;
    match call {
        Call::Alloc(n) => {
            let r = sut.m.allocate_sectors(n);
            let fits = n > 0 && model.largest() >= n;
            match r {
                Ok(s) => {
                    if !fits {
                        return Err(format!("allocate({n}) returned Ok({s}) but no free run of that length exists (largest {})", model.largest()));
                    }
                    let Some(end) = s.checked_add(n) else { return Err("overflowing allocation".into()) };
                    if s < START || end > START + model.free.len() as u64 {
                        return Err(format!("allocate({n}) returned out-of-bounds run {s}+{n}"));
                    }
                    for b in s..end {
                        if !model.free[(b - START) as usize] {
                            return Err(format!("allocate({n}) returned {s} overlapping an outstanding allocation at block {b}"));
                        }
                    }
                    for b in s..end {
                        model.free[(b - START) as usize] = false;
                    }
                    outcome = "alloc_ok";
                }
                Err(e) => {
                    if fits {
                        return Err(format!("allocate({n}) failed with {e:?} although a free run of {} exists", model.largest()));
                    }
                    outcome = if n == 0 { "alloc_zero" } else { "alloc_nospace" };
                }
            }
        }
        Call::Release(s, n) => {
            let ok = model.release_ok(s, n);
            let r = sut.m.release_sectors(s, n);
            match (ok, r) {
                (true, Ok(())) => {
                    for b in s..s + n {
                        model.free[(b - START) as usize] = true;
                    }
                    outcome = "release_ok";
                }
                (false, Err(_)) => {
                    outcome = "release_rejected";
                }
                (true, Err(e)) => return Err(format!("release({s},{n}) of a fully allocated in-bounds range failed: {e:?}")),
                (false, Ok(())) => return Err(format!("release({s},{n}) of an invalid range (reserved / out of bounds / overlapping free space) was accepted")),
            }
        }
    }
    // observable totals and both internal views
    let runs = model.runs();
    let total = model.total() * BLOCK;
    if sut.m.get_total_free() != total {
        return Err(format!("after {call:?}: get_total_free {} != true free {}", sut.m.get_total_free(), total));
    }
    if sut.m.get_free_chunks_count() != runs.len() {
        return Err(format!("after {call:?}: chunk count {} != merged runs {} ({runs:?})", sut.m.get_free_chunks_count(), runs.len()));
    }
    let largest = model.largest() * BLOCK;
    if sut.m.get_largest_free_chunk() != largest {
        return Err(format!("after {call:?}: largest {} != {}", sut.m.get_largest_free_chunk(), largest));
    }
    let (by_start, mut by_size) = sut.m.verif_runs();
    if by_start != runs {
        return Err(format!("after {call:?}: by-start view {by_start:?} != true merged runs {runs:?}"));
    }
    by_size.sort();
    if by_size != runs {
        return Err(format!("after {call:?}: by-size view {by_size:?} != true merged runs {runs:?}"));
    }
    // fragmentation formula from the doc comment: share of free space outside the largest run
    let frag = if total == 0 || runs.len() <= 1 { 0 } else { ((total - largest) * 100 / total) as u32 };
    // the metric is refreshed on successful calls only; a rejected call must leave it as it was
    if *model == before {
        // nothing changed: fragmentation must still describe this state
    }
    if sut.m.get_fragmentation() != frag {
        return Err(format!("after {call:?}: fragmentation {} != {}", sut.m.get_fragmentation(), frag));
    }
    Ok(outcome)
}

fn alphabet(data_blocks: usize) -> Vec<Call> {
    let n = data_blocks as u64;
    let mut calls = Vec::new();
    for k in 0..=n + 1 {
        calls.push(Call::Alloc(k));
    }
    calls.push(Call::Alloc(u64::MAX));
    let mut starts: Vec<u64> = (START - 2..START + n + 2).collect();
    starts.extend([0, 1, u64::MAX, u64::MAX - 1]);
    let mut counts: Vec<u64> = (0..=n + 1).collect();
    counts.extend([u64::MAX, u64::MAX - START]);
    for &s in &starts {
        for &c in &counts {
            calls.push(Call::Release(s, c));
        }
    }
    calls
}

fn exhaustive(report: &mut Report, data_blocks: usize, slack: u64, max_depth: usize) {
    let calls = alphabet(data_blocks);
    let mut seen: HashMap<Model, Vec<Call>> = HashMap::new();
    let mut queue: VecDeque<(Model, Vec<Call>)> = VecDeque::new();
    let root = Model::new(data_blocks);
    seen.insert(root.clone(), vec![]);
    queue.push_back((root, vec![]));
    let mut pairs = 0u64;
    let mut deepest = 0;
    while let Some((state, path)) = queue.pop_front() {
        if path.len() >= max_depth {
            continue;
        }
        for &call in &calls {
            // rebuild the real manager in this state by replaying the path
            let mut sut = Sut::new(data_blocks, slack);
            let mut model = Model::new(data_blocks);
            for &c in &path {
                if let Err(e) = step(&mut sut, &mut model, c) {
                    report.violation("fsm-replay", e, json!({"data_blocks": data_blocks, "path": format!("{path:?}")}));
                    return;
                }
            }
            debug_assert_eq!(model, state);
            pairs += 1;
            report.evaluations += 1;
            let h = fnv_mix(fnv_mix(crate::rng::fnv(format!("{:?}", state.free).as_bytes()), data_blocks as u64), crate::rng::fnv(format!("{call:?}").as_bytes()));
            match step(&mut sut, &mut model, call) {
                Ok(outcome) => {
                    report.count(&format!("outcome_{outcome}"), 1);
                    if outcome != "release_rejected" || matches!(call, Call::Release(s, n) if s >= START && n > 0 && n <= data_blocks as u64) {
                        report.nontrivial.insert(h);
                    }
                    if model != state && !seen.contains_key(&model) {
                        let mut p = path.clone();
                        p.push(call);
                        deepest = deepest.max(p.len());
                        seen.insert(model.clone(), p.clone());
                        queue.push_back((model, p));
                    }
                }
                Err(e) => {
                    let mut p = path.clone();
                    p.push(call);
                    report.violation(
                        format!("fsm:{}", e.split(':').next().unwrap_or("")),
                        e,
                        json!({"engine": "fsm", "data_blocks": data_blocks, "calls": format!("{p:?}")}),
                    );
                    return;
                }
            }
        }
    }
    report.count("exhaustive_states", seen.len() as u64);
    report.count("exhaustive_pairs", pairs);
    report.max("max_exhaustive_depth", deepest as u64);
    report.sample(json!({"kind": "exhaustive", "data_blocks": data_blocks, "states": seen.len(), "state_call_pairs": pairs, "alphabet": calls.len(), "deepest_first_reach": deepest}));
}

fn random_run(report: &mut Report, seed: u64, index: u64, steps: usize) {
    let mut rng = Rng::derive(seed, index, 0xf5);
    let data_blocks = *rng.pick(&[48usize, 64, 200, 1000, 4096]);
    let slack = *rng.pick(&[0u64, 0, 1, 512, 2048, 4095]);
    let mut sut = Sut::new(data_blocks, slack);
    let mut model = Model::new(data_blocks);
    let mut live: Vec<(u64, u64)> = Vec::new();
    let mut log: Vec<Call> = Vec::new();
    let max_req = match rng.below(3) {
        0 => 4,
        1 => 16,
        _ => (data_blocks as u64 / 3).max(2),
    };
    let mut coalesce_both = 0u64;
    for _ in 0..steps {
        let call = match rng.below(10) {
            0..=3 => Call::Alloc(rng.range(1, max_req)),
            4..=7 if !live.is_empty() => {
                let i = rng.usize_below(live.len());
                let (s, n) = live.swap_remove(i);
                // sometimes release only part of an allocation (still valid)
                if n > 1 && rng.chance(1, 4) {
                    let cut = rng.range(1, n - 1);
                    live.push((s + cut, n - cut));
                    Call::Release(s, cut)
                } else {
                    Call::Release(s, n)
                }
            }
            8 => {
                // invalid or borderline release
                let s = match rng.below(5) {
                    0 => rng.below(START),
                    1 => START + data_blocks as u64 - rng.below(3),
                    2 => u64::MAX - rng.below(4),
                    _ => START + rng.below(data_blocks as u64),
                };
                let n = match rng.below(4) {
                    0 => 0,
                    1 => u64::MAX - rng.below(20),
                    _ => rng.range(1, max_req),
                };
                Call::Release(s, n)
            }
            _ => Call::Alloc(rng.range(0, data_blocks as u64 + 2)),
        };
        log.push(call);
        report.evaluations += 1;
        // coalesce-with-both-neighbours event?
        if let Call::Release(s, n) = call {
            if model.release_ok(s, n) {
                let li = (s - START) as usize;
                let ri = (s + n - START) as usize;
                if li > 0 && model.free[li - 1] && ri < model.free.len() && model.free[ri] {
                    coalesce_both += 1;
                }
            }
        }
        let was_release_of_live = matches!(call, Call::Release(..));
        match step(&mut sut, &mut model, call) {
            Ok(outcome) => {
                report.count(&format!("outcome_{outcome}"), 1);
                if let (Call::Alloc(n), "alloc_ok") = (call, outcome) {
                    // find where it went: the model was updated inside step; recover start from runs delta
                    // (we only need it for later releases)
                    let s = find_alloc(&log, &model, n, &live);
                    live.push((s, n));
                }
                if outcome == "release_ok" && !was_release_of_live {
                    unreachable!();
                }
                if outcome == "release_ok" {
                    // a random release may have hit a live allocation: rebuild `live` from the model lazily
                    live.retain(|(s, n)| (*s..*s + *n).all(|b| !model.free[(b - START) as usize]));
                }
                let sig = model.runs().len() as u64;
                report.nontrivial.insert(fnv_mix(fnv_mix(sig, model.total()), crate::rng::fnv(outcome.as_bytes())));
            }
            Err(e) => {
                let tail: Vec<Call> = log.iter().rev().take(12).rev().cloned().collect();
                report.violation(
                    format!("fsm:{}", e.split(':').next().unwrap_or("")),
                    e,
                    json!({"engine": "fsm", "mode": "random", "seed": seed, "index": index, "data_blocks": data_blocks, "steps_executed": log.len(), "last_calls": format!("{tail:?}")}),
                );
                return;
            }
        }
    }
    report.count("coalesce_both_sides", coalesce_both);
    report.count("random_runs", 1);
}

/// Where did the last allocation land? The only blocks that are allocated in the
/// model but not covered by `live` and not previously known.
fn find_alloc(_log: &[Call], model: &Model, n: u64, live: &[(u64, u64)]) -> u64 {
    let mut covered = vec![false; model.free.len()];
    for &(s, c) in live {
        for b in s..s + c {
            covered[(b - START) as usize] = true;
        }
    }
    // first run of n allocated-but-uncovered blocks
    let mut i = 0;
    while i < model.free.len() {
        if !model.free[i] && !covered[i] {
            let s = i;
            while i < model.free.len() && !model.free[i] && !covered[i] && i - s < n as usize {
                i += 1;
            }
            if i - s == n as usize {
                return START + s as u64;
            }
        } else {
            i += 1;
        }
    }
    START
}

pub fn run(args: &Args) -> Report {
    let mut report = Report::new(
        "fsm",
        "free-space manager vs bitmap model: every (reachable state, call) pair on 3..N-block devices (also with sizes that are not a whole number of blocks) over an alphabet of all allocate sizes and all release ranges in a window incl. reserved/out-of-range/overflowing; plus seeded random sequences on 48..4096-block devices. distinct = (state bitmap, call) for the exhaustive part, (run count, free total, outcome) for the random part; rejected releases of nonsense ranges are not counted non-trivial",
    );
    let thorough = args.tier == "thorough";
    let max_blocks = if thorough { 8 } else { 6 };
    for data_blocks in 3..=max_blocks {
        exhaustive(&mut report, data_blocks, 0, 64);
        if !report.violations.is_empty() {
            return report;
        }
    }
    // devices whose size is not a whole number of blocks: the trailing partial block is out of bounds
    for (data_blocks, slack) in [(3usize, 1u64), (4, 2048), (5, 4095)] {
        exhaustive(&mut report, data_blocks, slack, 64);
        report.count("exhaustive_unaligned_devices", 1);
        if !report.violations.is_empty() {
            return report;
        }
    }
    report.exhaustive = false; // the random part is not exhaustive; the bounded part is (see counters)
    report.notes.push(format!("bounded part exhaustive for devices of 3..={max_blocks} data blocks (BFS to fixpoint over reachable states)"));
    let runs = if thorough { 20000 } else { 300 };
    let steps = if thorough { 4000 } else { 2000 };
    for i in 0..runs {
        random_run(&mut report, args.seed, i, steps);
        if !report.violations.is_empty() {
            break;
        }
    }
    report
}
