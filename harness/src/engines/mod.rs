pub mod fsm;
pub mod layout;
pub mod model;
pub mod scratchpad;
pub mod crash;
pub mod conc;
pub mod conc2;
