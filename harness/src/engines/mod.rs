pub mod fsm;
