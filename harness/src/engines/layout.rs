//! Layout oracle (C10, and the on-disk half of C05): after an acknowledged flush the
//! raw file, read by the independent codec, must describe exactly the live state.

use crate::indep::{self, BLOCK};
use crate::model::Model;
use crate::report::hex;
use feoxdb::core::store::verif_access::VerifSnapshot;

/// Partition invariant over a quiescent snapshot: live extents and free runs tile
/// the data area exactly; both free views agree; runs are coalesced.
pub fn check_partition(snap: &VerifSnapshot, version: u32, quarantined: &[(u64, u64)]) -> Result<(u64, u64), (String, String)> {
    let total_blocks = snap.device_size / BLOCK as u64;
    let mut by_size = snap.free_by_size.clone();
    by_size.sort();
    if by_size != snap.free_by_start {
        return Err(("space:views-disagree".into(), format!("free-space views disagree: by_start {:?} vs by_size {:?}", snap.free_by_start, by_size)));
    }
    let mut owners: Vec<(u64, u64, String)> = Vec::new();
    for e in &snap.entries {
        if e.sector == 0 {
            return Err(("space:not-durable".into(), format!("key {} has no extent at a quiescent point", hex(&e.key))));
        }
        let blocks = indep::record_blocks(version, e.key.len(), e.value_len);
        owners.push((e.sector, blocks, format!("record {}", hex(&e.key))));
    }
    for &(s, n) in &snap.free_by_start {
        owners.push((s, n, "free".into()));
    }
    for &(s, n) in quarantined {
        owners.push((s, n, "quarantined".into()));
    }
    owners.sort();
    let mut cursor = indep::DATA_START;
    let mut prev_free = false;
    for (s, n, who) in &owners {
        if *s < cursor {
            return Err(("space:overlap".into(), format!("{who} at blocks [{s},{}) overlaps the previous owner ending at {cursor}", s + n)));
        }
        if *s > cursor {
            return Err(("space:leak".into(), format!("blocks [{cursor},{s}) belong to no record and are not free (leaked)")));
        }
        if who == "free" && prev_free {
            return Err(("space:uncoalesced".into(), format!("adjacent free runs not merged at block {s}")));
        }
        prev_free = who == "free";
        cursor = s + n;
    }
    if cursor != total_blocks {
        if cursor > total_blocks {
            return Err(("space:out-of-bounds".into(), format!("an extent ends at block {cursor} beyond the device ({total_blocks} blocks)")));
        }
        return Err(("space:leak".into(), format!("blocks [{cursor},{total_blocks}) belong to no record and are not free (leaked)")));
    }
    let live_blocks: u64 = snap.entries.iter().map(|e| indep::record_blocks(version, e.key.len(), e.value_len)).sum();
    let quarantined_blocks: u64 = quarantined.iter().map(|q| q.1).sum();
    if snap.disk_usage != (live_blocks + quarantined_blocks) * BLOCK as u64 {
        return Err(("space:disk-usage".into(), format!("disk_usage counter {} != 4096 * live blocks {}", snap.disk_usage, live_blocks + quarantined_blocks)));
    }
    let free_blocks: u64 = snap.free_by_start.iter().map(|r| r.1).sum();
    if snap.total_free != free_blocks * BLOCK as u64 {
        return Err(("space:total-free".into(), format!("total_free {} != sum of runs {}", snap.total_free, free_blocks * BLOCK as u64)));
    }
    Ok((live_blocks, free_blocks))
}

/// Persisted counters of the newest metadata copy against what the independent reader finds in the same image.
pub fn check_counters(image: &[u8]) -> Result<(), (String, String)> {
    let scan = indep::scan(image, None, false).map_err(|e| ("layout:unreadable".to_string(), format!("independent reader cannot read the file: {e}")))?;
    let Some(meta) = scan.meta.as_ref() else { return Ok(()) };
    let live_blocks: u64 = scan.records.values().map(|r| r.blocks).sum();
    if meta.total_records != scan.records.len() as u64 || meta.total_size != live_blocks * BLOCK as u64 {
        return Err((
            "layout:metadata".into(),
            format!("newest metadata copy (block {}): total_records {} total_size {} — the file holds {} live records in {} bytes", scan.meta_block, meta.total_records, meta.total_size, scan.records.len(), live_blocks * BLOCK as u64),
        ));
    }
    Ok(())
}

pub fn check_image(image: &[u8], model: &Model, snap: &VerifSnapshot, version: u32) -> Result<(), (String, String)> {
    let scan = indep::scan(image, None, false).map_err(|e| ("layout:unreadable".to_string(), format!("independent reader cannot read the flushed file: {e}")))?;
    if scan.version != version {
        return Err(("layout:version".into(), format!("metadata says v{} on a v{} device", scan.version, version)));
    }
    if let Some(j) = &scan.journal {
        if !j.extents.is_empty() {
            return Err(("layout:journal-active".into(), format!("allocation journal still active after flush: {:?}", j.extents)));
        }
    }
    if scan.records.len() != model.keys.len() || !model.keys.keys().all(|k| scan.records.contains_key(k)) {
        let extra: Vec<String> = scan.records.keys().filter(|k| !model.keys.contains_key(*k)).map(|k| hex(k)).collect();
        let missing: Vec<String> = model.keys.keys().filter(|k| !scan.records.contains_key(*k)).map(|k| hex(k)).collect();
        return Err(("layout:keyset".into(), format!("file holds a different live key set: unexpected {extra:?}, missing {missing:?}")));
    }
    for (k, g) in &model.keys {
        let r = &scan.records[k];
        if r.value != g.value || r.timestamp != g.ts || r.expiry != g.expiry {
            return Err((
                "layout:record".into(),
                format!("file record for {}: ts {} expiry {} value {} — live state: ts {} expiry {} value {}", hex(k), r.timestamp, r.expiry, crate::values::describe(&r.value), g.ts, g.expiry, crate::values::describe(&g.value)),
            ));
        }
        // padding after the value must be zero
        let hl = indep::header_len(version, k.len());
        let ext = &image[r.sector as usize * BLOCK..(r.sector + r.blocks) as usize * BLOCK];
        if ext[hl + g.value.len()..].iter().any(|b| *b != 0) {
            return Err(("layout:padding".into(), format!("non-zero padding after the value of {}", hex(k))));
        }
    }
    if scan.heads.len() != scan.records.len() {
        let losers: Vec<String> = scan.heads.iter().filter(|h| scan.records.get(&h.key).map(|w| w.sector != h.sector).unwrap_or(true)).map(|h| format!("{}@{}", hex(&h.key), h.sector)).collect();
        return Err(("layout:stale-generation".into(), format!("superseded generations still present as valid records after flush: {losers:?}")));
    }
    for e in &snap.entries {
        if scan.records[&e.key].sector != e.sector {
            return Err(("layout:sector".into(), format!("store says {} lives at block {}, file has it at {}", hex(&e.key), e.sector, scan.records[&e.key].sector)));
        }
    }
    let meta = scan.meta.as_ref().unwrap();
    let live_blocks: u64 = scan.records.values().map(|r| r.blocks).sum();
    if meta.total_records != model.keys.len() as u64 || meta.total_size != live_blocks * BLOCK as u64 || meta.device_size != image.len() as u64 {
        return Err((
            "layout:metadata".into(),
            format!("newest metadata copy (block {}): total_records {} total_size {} device_size {} — live: {} records, {} bytes, device {}", scan.meta_block, meta.total_records, meta.total_size, meta.device_size, model.keys.len(), live_blocks * BLOCK as u64, image.len()),
        ));
    }
    // every block outside a live extent is either untouched (zero) or a complete, correctly counted marker
    let total_blocks = (image.len() / BLOCK) as u64;
    let mut live = vec![false; total_blocks as usize];
    for r in scan.records.values() {
        for b in r.sector..r.sector + r.blocks {
            live[b as usize] = true;
        }
    }
    let mut b = indep::DATA_START;
    while b < total_blocks {
        if live[b as usize] {
            b += 1;
            continue;
        }
        let blk = &image[b as usize * BLOCK..(b as usize + 1) * BLOCK];
        if blk.iter().all(|x| *x == 0) {
            b += 1;
            continue;
        }
        match indep::classify_block(version, b, image) {
            indep::BlockKind::Marker { remaining, complete } => {
                if !complete {
                    return Err(("layout:marker-pending".into(), format!("free block {b} carries a pending (state 0) marker after flush")));
                }
                if (b..b + remaining).any(|x| live[x as usize]) {
                    return Err(("layout:marker-span".into(), format!("marker at block {b} claims {remaining} retired blocks but a live record lies inside")));
                }
                if blk[19..].iter().any(|x| *x != 0) {
                    return Err(("layout:marker-tail".into(), format!("marker block {b} has non-zero bytes after the marker")));
                }
            }
            other => {
                return Err(("layout:free-block-content".into(), format!("free block {b} is neither zero nor a valid retirement marker: {other:?}")));
            }
        }
        b += 1;
    }
    check_partition(snap, version, &[]).map(|_| ())
}
