//! ad-hoc probes (not registered in any check)
use crate::args::Args;
use crate::crashimg::{self, Recipe};
use crate::engines::crash::recover_image;
use crate::mon::hub;
use crate::report::Report;
use crate::storeutil::{self, Cfg};
use crate::values::{self, Tag};
use std::sync::atomic::{AtomicU64, Ordering};
use std::sync::Arc;

/// Two flush workers split one retired run: the first allocates its head part and is delayed before it
/// reaches the device, the second allocates the part behind it, writes it, clears the journal and
/// retires the overwritten generation. Crash then.
pub fn run(_args: &Args) -> Report {
    let report = Report::new("scratch", "ad-hoc");
    let dir = storeutil::scratch_dir("scratch");
    let path = format!("{dir}/split.feox");
    let mut cfg = Cfg::disk(16 + 256);
    cfg.cpus = 4;
    cfg.cache = false;
    storeutil::ensure_device(&cfg, &path);
    let mon = hub().watch(&path);
    let base = vec![0u8; (cfg.blocks as usize) * 4096];
    let store = Arc::new(storeutil::open(&cfg, Some(&path)).unwrap());
    // which shard does a key land in?
    let shard_of = |k: &[u8]| -> usize {
        store.insert(k, b"probe-probe-probe-probe-probe").unwrap();
        let p = store.verif_pending().unwrap();
        let s = p.shard_queued.iter().position(|q| *q > 0).unwrap();
        store.flush().unwrap();
        s
    };
    let mut by_shard: Vec<Vec<Vec<u8>>> = vec![Vec::new(); 2];
    for i in 0..40 {
        let k = format!("key-{i:02}").into_bytes();
        let s = shard_of(&k);
        by_shard[s].push(k);
    }
    println!("shards: {} / {} keys", by_shard[0].len(), by_shard[1].len());
    // a 6-block victim at the lowest free address, then retire it: markers "remaining 6..1"
    let victim = values::make(Tag { key_id: 1, writer: 0, seq: 1 }, 5 * 4096 + 100);
    store.insert(b"victim", &victim).unwrap();
    store.flush().unwrap();
    let vsec = store.verif_entry(b"victim").unwrap().sector;
    store.delete(b"victim").unwrap();
    store.flush().unwrap();
    println!("victim extent was at block {vsec} (6 blocks), now retired and free");
    let (ka, kb) = (by_shard[0][0].clone(), by_shard[1][0].clone());
    // both keys are durable and acknowledged (small values elsewhere); now both are updated
    let arrivals = Arc::new(AtomicU64::new(0));
    {
        let arrivals = arrivals.clone();
        hub().set_action(Some(Arc::new(move |point: &'static str| {
            if point == "flush.allocated" && arrivals.fetch_add(1, Ordering::SeqCst) == 0 {
                std::thread::sleep(std::time::Duration::from_millis(1500));
            }
        })));
    }
    store.insert(&ka, &values::make(Tag { key_id: 2, writer: 0, seq: 2 }, 4096 + 500)).unwrap();
    store.insert(&kb, &values::make(Tag { key_id: 3, writer: 0, seq: 2 }, 600)).unwrap();
    let s2 = store.clone();
    let flusher = std::thread::spawn(move || s2.flush());
    std::thread::sleep(std::time::Duration::from_millis(900));
    // crash now: the device holds exactly what was fsynced so far
    let events = mon.events();
    let durable = crashimg::build(&base, &events, &Recipe { cut: events.len(), keep: vec![], tear: None });
    println!("{}", crashimg::digest(&events, events.len().saturating_sub(14), events.len()).join("\n"));
    for (name, k) in [("A (delayed worker)", &ka), ("B", &kb)] {
        println!("live store: {name} {:?} sector {:?}", String::from_utf8_lossy(k), store.verif_entry(k).map(|e| e.sector));
    }
    match recover_image(&durable, &format!("{dir}/img.feox"), 3, false, false) {
        Ok((rec, _)) => {
            for (name, k) in [("A", &ka), ("B", &kb)] {
                println!("after the crash: key {name} {:?} -> {:?}", String::from_utf8_lossy(k), rec.dump.get(k.as_slice()).map(|d| d.value.as_ref().map(|v| values::describe(v)).map_err(|e| e.clone())));
            }
        }
        Err(e) => println!("recovery failed: {e}"),
    }
    hub().set_action(None);
    let _ = flusher.join();
    report
}
