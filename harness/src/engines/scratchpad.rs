//! ad-hoc probes (not registered in any check)
use crate::args::Args;
use crate::report::Report;
use crate::storeutil::{self, Cfg};

pub fn run(args: &Args) -> Report {
    let report = Report::new("scratch", "ad-hoc");
    let dir = storeutil::scratch_dir("scratch");
    let path = format!("{dir}/d.feox");
    let mut cfg = Cfg::disk(16 + 64);
    cfg.version = args.num("version", 2) as u32;
    let st = storeutil::open(&cfg, Some(&path)).unwrap();
    for i in 0..8 {
        st.insert(format!("k{i}").as_bytes(), b"0123456789012345678901234567").unwrap();
    }
    st.flush().unwrap();
    st.delete(b"k3").unwrap();
    drop(st);
    println!("after drop: {}", path);
    std::process::Command::new("python3").args(["/tmp/dbg.py", &path]).status().unwrap();
    let st = storeutil::open(&cfg, Some(&path)).unwrap();
    println!("len {}", st.len());
    drop(st);
    std::process::Command::new("python3").args(["/tmp/dbg.py", &path]).status().unwrap();
    report
}
