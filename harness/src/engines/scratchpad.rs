//! ad-hoc probes (not registered in any check)
use crate::args::Args;
use crate::mon::{hub, SchedCtl};
use crate::report::Report;
use crate::storeutil::{self, Cfg};
use std::sync::Arc;

pub fn run(_args: &Args) -> Report {
    let report = Report::new("scratch", "ad-hoc");
    let dir = storeutil::scratch_dir("scratch");
    let path = format!("{dir}/d.feox");
    let cfg = Cfg::disk(16 + 64);
    let st = Arc::new(storeutil::open(&cfg, Some(&path)).unwrap());
    st.insert(b"other", b"0123456789012345678901234567").unwrap();
    st.flush().unwrap();
    st.insert(b"k", b"generation-1").unwrap();
    let ctl = Arc::new(SchedCtl::new(1, 0, 0).target("update.before_enqueue", 1000, 600_000));
    hub().set_sched(Some(ctl));
    let st2 = st.clone();
    let t = std::thread::spawn(move || {
        st2.insert(b"k", b"generation-2").unwrap();
    });
    std::thread::sleep(std::time::Duration::from_millis(150));
    println!("flush -> {:?}", st.flush());
    std::fs::copy(&path, format!("{dir}/copy.feox")).unwrap();
    t.join().unwrap();
    hub().set_sched(None);
    let c = storeutil::open(&cfg, Some(&format!("{dir}/copy.feox"))).unwrap();
    println!("after crash right after the acknowledged flush: get(k) = {:?}", c.get(b"k").map(|v| String::from_utf8_lossy(&v).to_string()));
    println!("live store get(k) = {:?}", st.get(b"k").map(|v| String::from_utf8_lossy(&v).to_string()));
    report
}
