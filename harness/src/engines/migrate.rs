//! E-migrate (C15): offline migration is a faithful, verified, non-destructive copy.

use crate::args::Args;
use crate::indep::{self, BLOCK};
use crate::report::{hex, Report};
use crate::rng::{fnv, fnv_mix, Rng};
use crate::storeutil::{self, Cfg};
use crate::values::{self, Tag};
use feoxdb::{migrate, MigrationError, MigrationOptions};
use serde_json::json;
use std::collections::BTreeMap;

fn kid(k: &[u8]) -> u32 {
    (fnv(k) & 0xffff_ffff) as u32
}

fn place(image: &mut [u8], sector: u64, bytes: &[u8]) {
    let o = sector as usize * BLOCK;
    image[o..o + bytes.len()].copy_from_slice(bytes);
}

struct Source {
    class: &'static str,
    image: Vec<u8>,
    allow_legacy: bool,
}

/// Legacy device produced by the real engine running in v1/v2 compatibility mode.
fn engine_source(rng: &mut Rng, dir: &str, n: u64, big: bool) -> Option<Source> {
    let version = *rng.pick(&[1u32, 2, 2]);
    let blocks = if big { 16 + 8192 } else { 16 + *rng.pick(&[64u64, 128, 512]) };
    let mut cfg = Cfg::disk(blocks);
    cfg.version = version;
    cfg.ttl = version >= 2;
    cfg.cache = false;
    cfg.cpus = *rng.pick(&[2usize, 4, 8]);
    let path = format!("{dir}/eng-{n}.feox");
    let _ = std::fs::remove_file(&path);
    let store = storeutil::open(&cfg, Some(&path)).ok()?;
    let nkeys = if big { *rng.pick(&[300usize, 4200]) } else { 4 + rng.usize_below(20) };
    let ops = if big { nkeys + 200 } else { 30 + rng.usize_below(60) };
    let mut seq = 0u32;
    for i in 0..ops {
        let k = format!("mk-{:05}", if i < nkeys { i } else { rng.usize_below(nkeys) }).into_bytes();
        seq += 1;
        match rng.below(10) {
            0..=5 => {
                let len = if big { 40 } else { *rng.pick(&[30usize, 200, 4000, 4070, 9000]) };
                let v = values::make(Tag { key_id: kid(&k), writer: 0, seq }, len);
                if version >= 2 && rng.chance(1, 4) {
                    let _ = store.insert_with_ttl(&k, &v, *rng.pick(&[1u64, 3600, 1 << 30]));
                } else {
                    let _ = store.insert(&k, &v);
                }
            }
            6..=7 => {
                let _ = store.delete(&k);
            }
            8 => {
                let _ = store.flush();
            }
            _ => {
                if version >= 2 {
                    let _ = store.update_ttl(&k, 7200);
                }
            }
        }
    }
    let _ = store.flush();
    drop(store);
    let image = std::fs::read(&path).ok()?;
    let _ = std::fs::remove_file(&path);
    Some(Source { class: if big { "engine-large" } else { "engine-workload" }, image, allow_legacy: false })
}

fn synth_source(rng: &mut Rng) -> Source {
    let version = *rng.pick(&[1u32, 2, 2]);
    let blocks = *rng.pick(&[40u64, 48, 64]);
    let mut image = indep::fresh_image(version, blocks);
    let val = |rng: &mut Rng, k: &[u8], n: u32| values::make(Tag { key_id: kid(k), writer: 1, seq: n }, *rng.pick(&[30usize, 300, 4070, 6000]));
    let mut class: &'static str;
    let mut allow_legacy = false;
    match rng.below(11) {
        0 => {
            class = "synth-duplicates";
            // same key twice, newest first or last on disk
            let k = b"dup".to_vec();
            let (a, b) = (val(rng, &k, 1), val(rng, &k, 2));
            let newest_first = rng.chance(1, 2);
            let (t1, t2) = if newest_first { (200u64, 100u64) } else { (100, 200) };
            let r1 = indep::encode_record(version, &k, &a, t1, 0, 16);
            place(&mut image, 16, &r1);
            let s2 = 16 + (r1.len() / BLOCK) as u64;
            let r2 = indep::encode_record(version, &k, &b, t2, 0, s2);
            place(&mut image, s2, &r2);
            let other = b"other".to_vec();
            let s3 = s2 + (r2.len() / BLOCK) as u64;
            place(&mut image, s3, &indep::encode_record(version, &other, &val(rng, &other, 3), 50, 0, s3));
        }
        1 => {
            class = "synth-expired-winner";
            let version2 = 2;
            image = indep::fresh_image(version2, blocks);
            let k = b"exp".to_vec();
            let old = indep::encode_record(version2, &k, &val(rng, &k, 1), 100, 0, 16);
            place(&mut image, 16, &old);
            let s2 = 16 + (old.len() / BLOCK) as u64;
            // newest generation expired long ago
            let newer = indep::encode_record(version2, &k, &val(rng, &k, 2), 200, 1_000_000_000, s2);
            place(&mut image, s2, &newer);
        }
        2 => {
            class = "synth-record-at-last-block";
            let k = b"last".to_vec();
            let v = values::make(Tag { key_id: kid(&k), writer: 1, seq: 1 }, 100);
            place(&mut image, blocks - 1, &indep::encode_record(version, &k, &v, 7, 0, blocks - 1));
            let k2 = b"first".to_vec();
            place(&mut image, 16, &indep::encode_record(version, &k2, &val(rng, &k2, 2), 8, 0, 16));
        }
        3 => {
            class = "synth-v1-key-too-large-for-v3";
            image = indep::fresh_image(1, blocks);
            let k = vec![b'K'; rng.range(4067, 4074) as usize];
            place(&mut image, 16, &indep::encode_record(1, &k, b"v", 5, 0, 16));
            let k2 = b"ok".to_vec();
            place(&mut image, 18, &indep::encode_record(1, &k2, &val(rng, &k2, 2), 8, 0, 18));
        }
        4 => {
            class = "synth-ambiguous-marker";
            allow_legacy = rng.chance(1, 2);
            let mut m = vec![0u8; BLOCK];
            m[..8].copy_from_slice(indep::MARKER_TAG);
            place(&mut image, 16, &m);
            let k = b"live".to_vec();
            place(&mut image, 17, &indep::encode_record(version, &k, &val(rng, &k, 1), 41, 0, 17));
        }
        5 => {
            class = "synth-damaged";
            let k = b"a".to_vec();
            place(&mut image, 16, &indep::encode_record(version, &k, &val(rng, &k, 1), 41, 0, 16));
            match rng.below(3) {
                0 => {
                    // record head with a non-zero token on a legacy device: fatal
                    class = "synth-damaged-head";
                    let k2 = b"b".to_vec();
                    let mut r = indep::encode_record(version, &k2, b"zzzz", 42, 0, 20);
                    r[2] = 7;
                    place(&mut image, 20, &r);
                }
                1 => {
                    let garbage = rng.bytes(BLOCK);
                    place(&mut image, 21, &garbage);
                }
                _ => {
                    // new-style marker with a wrong token
                    class = "synth-damaged-marker";
                    let mut m = indep::encode_marker(22, 1, 1);
                    m[16] ^= 0xff;
                    place(&mut image, 22, &m);
                }
            }
        }
        6 => {
            class = "synth-v3-source";
            image = indep::fresh_image(3, blocks);
            let k = b"cur".to_vec();
            place(&mut image, 16, &indep::encode_record(3, &k, &val(rng, &k, 1), 41, 0, 16));
        }
        7 => {
            class = "synth-active-journal";
            let ghost = b"ghost".to_vec();
            place(&mut image, 16, &indep::encode_record(version, &ghost, &val(rng, &ghost, 1), 9, 0, 16));
            let ghost_blocks = indep::record_blocks(version, ghost.len(), 30).max(1);
            let _ = ghost_blocks;
            let live = b"live".to_vec();
            place(&mut image, 20, &indep::encode_record(version, &live, b"keep-keep-keep", 10, 0, 20));
            // the journal of a crashed batch lists its extents in allocation order, which is not
            // sector order once free space is fragmented: several entries, shuffled, each holding a
            // parsable (uncommitted) record, one of them a newer generation of a committed key
            let mut extents = vec![(16u64, 2u64)];
            let overwrite = indep::encode_record(version, &live, b"uncommitted-overwrite", 99, 0, 24);
            place(&mut image, 24, &overwrite);
            extents.push((24, 1));
            if rng.chance(1, 2) {
                let g2 = b"ghost2".to_vec();
                place(&mut image, 28, &indep::encode_record(version, &g2, &val(rng, &g2, 5), 11, 0, 28));
                extents.push((28, 2));
            }
            rng.shuffle(&mut extents);
            let j = indep::encode_journal(rng.range(1, 9), &extents, 2);
            place(&mut image, 1, &j);
        }
        8 => {
            // the file is LONGER than the device size its metadata records (an image copied into a larger
            // preallocated file, a device grown by hand): the file length decides, as it does for every ordinary
            // open, and records live in the extra space - a key that exists only there, the newest generation of a
            // key whose older generation sits in the original area, and a record ending at the very last block
            class = "synth-grown-file";
            let k = b"moved".to_vec();
            place(&mut image, 16, &indep::encode_record(version, &k, &val(rng, &k, 1), 100, 0, 16));
            let k0 = b"stays".to_vec();
            place(&mut image, 20, &indep::encode_record(version, &k0, &val(rng, &k0, 2), 101, 0, 20));
            let extra = rng.range(8, 24);
            image.resize(((blocks + extra) as usize) * BLOCK, 0);
            let mut sector = blocks + rng.below(2);
            let newer = indep::encode_record(version, &k, &val(rng, &k, 3), 200, 0, sector);
            place(&mut image, sector, &newer);
            sector += (newer.len() / BLOCK) as u64;
            let k2 = b"tail".to_vec();
            let r2 = indep::encode_record(version, &k2, &val(rng, &k2, 4), 102, 0, sector);
            if sector + (r2.len() / BLOCK) as u64 <= blocks + extra - 1 {
                place(&mut image, sector, &r2);
            }
            let k3 = b"last".to_vec();
            let v3 = values::make(Tag { key_id: kid(&k3), writer: 1, seq: 5 }, 100);
            place(&mut image, blocks + extra - 1, &indep::encode_record(version, &k3, &v3, 103, 0, blocks + extra - 1));
        }
        9 => {
            // an ACTIVE journal whose extent covers the TAIL of a live multi-block legacy record (a crashed batch
            // had been given blocks that recovery has not yet taken back): a legacy record has no checksum, so
            // the bytes in its tail are whatever the crashed batch left there. Refusing the source is fine; if
            // the migration succeeds, the copy must hold what an ordinary recovery of the source yields
            class = "synth-journal-over-live-tail";
            let k = b"long".to_vec();
            let v = values::make(Tag { key_id: kid(&k), writer: 1, seq: 1 }, *rng.pick(&[6000usize, 9000, 12000]));
            let r = indep::encode_record(version, &k, &v, 300, 0, 16);
            let nb = (r.len() / BLOCK) as u64;
            place(&mut image, 16, &r);
            // uncommitted bytes of the crashed batch in the record's last block
            let junk = indep::encode_record(version, b"uncommitted", b"bytes of a batch that never committed", 999, 0, 16 + nb - 1);
            place(&mut image, 16 + nb - 1, &junk);
            let other = b"other".to_vec();
            place(&mut image, 30, &indep::encode_record(version, &other, &val(rng, &other, 2), 301, 0, 30));
            let j = indep::encode_journal(rng.range(1, 9), &[(16 + nb - 1, 1)], 2);
            place(&mut image, 1, &j);
        }
        _ => {
            class = "synth-plain";
            let mut sector = 16u64;
            let mut n = 0;
            while sector + 3 < blocks {
                n += 1;
                let k = format!("p{n}").into_bytes();
                let expiry = if version >= 2 && rng.chance(1, 3) { *rng.pick(&[1_000_000_000u64, 4_000_000_000_000_000_000]) } else { 0 };
                let r = indep::encode_record(version, &k, &val(rng, &k, n), 1000 + n as u64, expiry, sector);
                if sector + (r.len() / BLOCK) as u64 > blocks {
                    break;
                }
                place(&mut image, sector, &r);
                sector += (r.len() / BLOCK) as u64 + rng.below(2);
            }
        }
    }
    Source { class, image, allow_legacy }
}

fn listing(dir: &str) -> Vec<String> {
    let mut v: Vec<String> = std::fs::read_dir(dir).map(|rd| rd.flatten().map(|e| e.file_name().to_string_lossy().to_string()).collect()).unwrap_or_default();
    v.sort();
    v
}

type Logical = BTreeMap<Vec<u8>, (Vec<u8>, u64, u64)>;

fn logical_of_scan(s: &indep::Scan) -> Logical {
    s.records.iter().map(|(k, r)| (k.clone(), (r.value.clone(), r.timestamp, r.expiry))).collect()
}

fn err_class(e: &MigrationError) -> String {
    let s = format!("{e:?}");
    s.split(|c| c == '(' || c == '{' || c == ' ').next().unwrap_or("").to_string()
}

fn one(report: &mut Report, seed: u64, n: u64, root: &str, cli: Option<&str>) {
    let mut rng = Rng::derive(seed, n, 0x319);
    let big = n % 97 == 96;
    let src = if n % 3 == 0 || big {
        match engine_source(&mut rng, root, n, big) {
            Some(s) => s,
            None => {
                report.inconclusive.push("engine source generation failed".into());
                return;
            }
        }
    } else {
        synth_source(&mut rng)
    };
    let dir = format!("{root}/m{n}");
    let _ = std::fs::remove_dir_all(&dir);
    std::fs::create_dir_all(&dir).unwrap();
    let source = format!("{dir}/source.feox");
    let dest = format!("{dir}/dest.feox");
    std::fs::write(&source, &src.image).unwrap();
    let precreate = rng.below(10) == 0;
    if precreate {
        std::fs::write(&dest, b"SENTINEL-do-not-touch").unwrap();
    }
    let before_hash = fnv(&src.image);
    let before_list = listing(&dir);
    let use_cli = cli.is_some() && rng.chance(1, 4);
    // race: somebody else creates the destination while the migration is busy writing its temporary
    // copy (after the up-front existence check) - it must fail and leave that file alone
    let race = !precreate && !use_cli && rng.below(6) == 0;
    let raced = std::sync::Arc::new(std::sync::atomic::AtomicBool::new(false));
    let racer = race.then(|| {
        let (dir, dest, raced) = (dir.clone(), dest.clone(), raced.clone());
        crate::mon::hub().add_racer(std::sync::Arc::new(move |file: feoxdb::verif::FileId| {
            use std::os::unix::fs::MetadataExt;
            let mine = std::fs::read_dir(&dir).map(|rd| rd.flatten().any(|e| e.metadata().map(|m| (m.dev(), m.ino()) == file).unwrap_or(false))).unwrap_or(false);
            if mine && !raced.swap(true, std::sync::atomic::Ordering::SeqCst) {
                use std::io::Write;
                if let Ok(mut f) = std::fs::OpenOptions::new().write(true).create_new(true).open(&dest) {
                    let _ = f.write_all(b"SENTINEL-do-not-touch");
                }
            }
        }))
    });
    // second kind of race: somebody touches the SOURCE (its modification time moves an hour ahead, the bytes stay)
    // while the migration is writing its temporary copy. Giving up is fine - with nothing left at the destination
    let touch = !precreate && !use_cli && !race && rng.below(6) == 0;
    let touched = std::sync::Arc::new(std::sync::atomic::AtomicBool::new(false));
    let toucher = touch.then(|| {
        let (dir, source, touched) = (dir.clone(), source.clone(), touched.clone());
        crate::mon::hub().add_racer(std::sync::Arc::new(move |file: feoxdb::verif::FileId| {
            use std::os::unix::fs::MetadataExt;
            let mine = std::fs::read_dir(&dir).map(|rd| rd.flatten().any(|e| e.metadata().map(|m| (m.dev(), m.ino()) == file).unwrap_or(false))).unwrap_or(false);
            if mine && !touched.swap(true, std::sync::atomic::Ordering::SeqCst) {
                if let Ok(f) = std::fs::OpenOptions::new().write(true).open(&source) {
                    let _ = f.set_modified(std::time::SystemTime::now() + std::time::Duration::from_secs(3600));
                }
            }
        }))
    });
    report.evaluations += 1;
    report.count(&format!("source_{}", src.class), 1);
    let replay = json!({"engine": "migrate", "seed": seed, "source": n, "class": src.class, "allow_legacy": src.allow_legacy, "precreated_destination": precreate, "destination_created_during_migration": race, "source_touched_during_migration": touch});
    // expected logical contents from the independent reader
    let expected = indep::scan(&src.image, None, src.allow_legacy).map(|s| (s.version, logical_of_scan(&s)));
    let (ok, err_name, report_counts): (bool, String, Option<(u64, u64, u32, u32, u64, u64)>) = if use_cli {
        let mut cmd = std::process::Command::new(cli.unwrap());
        cmd.args(["--source", &source, "--destination", &dest]);
        if src.allow_legacy {
            cmd.arg("--allow-ambiguous-legacy-recovery");
        }
        match cmd.output() {
            Ok(o) => {
                let code = o.status.code().unwrap_or(-1);
                report.count(&format!("cli_exit_{code}"), 1);
                if code != 0 && code != 1 {
                    report.violation("migrate:cli-exit-code", format!("feox-migrate exited with {code} for a well-formed command line: {}", String::from_utf8_lossy(&o.stderr)), replay.clone());
                }
                (code == 0, String::from_utf8_lossy(&o.stderr).lines().next().unwrap_or("").to_string(), None)
            }
            Err(e) => {
                report.inconclusive.push(format!("cli spawn failed: {e}"));
                return;
            }
        }
    } else {
        match migrate(MigrationOptions::new(&source, &dest).allow_ambiguous_legacy_recovery(src.allow_legacy)) {
            Ok(r) => (true, String::new(), Some((r.records, r.value_bytes, r.source_version, r.destination_version, r.destination_size, r.ambiguous_legacy_markers))),
            Err(e) => (false, err_class(&e), None),
        }
    };
    if let Some(id) = racer {
        crate::mon::hub().remove_racer(id);
    }
    if let Some(id) = toucher {
        crate::mon::hub().remove_racer(id);
    }
    if touched.load(std::sync::atomic::Ordering::SeqCst) {
        report.count("source_touched_during_migration", 1);
    }
    let raced = raced.load(std::sync::atomic::Ordering::SeqCst);
    if raced {
        report.count("destination_created_during_migration", 1);
    }
    let precreate = precreate || raced;
    let before_list = if raced {
        let mut l = before_list.clone();
        l.push("dest.feox".into());
        l.sort();
        l
    } else {
        before_list
    };
    // the source is never modified
    let after = std::fs::read(&source).unwrap_or_default();
    if fnv(&after) != before_hash || after.len() != src.image.len() {
        report.violation("migrate:source-modified", format!("{}: the source file changed during migration (result ok={ok} {err_name})", src.class), replay.clone());
    }
    let after_list = listing(&dir);
    if !ok {
        report.count(&format!("failed_{}", if err_name.is_empty() { "cli".to_string() } else { err_name.clone().chars().take(40).collect() }), 1);
        if after_list != before_list {
            report.violation("migrate:failure-leaves-files", format!("{}: migration failed ({err_name}) but the directory changed: before {before_list:?} after {after_list:?}", src.class), replay.clone());
        }
        if precreate && std::fs::read(&dest).ok().as_deref() != Some(b"SENTINEL-do-not-touch".as_slice()) {
            report.violation("migrate:destination-overwritten", format!("{}: existing destination was modified", src.class), replay.clone());
        }
        // which failures are expected?
        match (&expected, src.class) {
            (_, "synth-v3-source") | (_, "synth-v1-key-too-large-for-v3") | (_, "synth-damaged") | (_, "synth-damaged-head") | (_, "synth-damaged-marker") | (_, "synth-journal-over-live-tail") => {}
            (_, "synth-ambiguous-marker") if !src.allow_legacy => {}
            _ if precreate => {}
            // the source's modification time moved while it was being read: giving up is a legitimate answer
            _ if touched.load(std::sync::atomic::Ordering::SeqCst) => {}
            (Ok(_), _) => {
                report.violation("migrate:unexpected-failure", format!("{}: the independent reader can read the source but migration failed with {err_name}", src.class), replay.clone());
            }
            _ => {}
        }
        report.count("failure_path_cleanliness_checks", 1);
        report.nontrivial.insert(fnv_mix(fnv(src.class.as_bytes()), fnv(err_name.as_bytes())));
        let _ = std::fs::remove_dir_all(&dir);
        return;
    }
    // ---- success
    if precreate {
        report.violation("migrate:destination-overwritten", format!("{}: migration succeeded although the destination already existed", src.class), replay.clone());
    }
    let mut want = before_list.clone();
    want.push("dest.feox".into());
    want.sort();
    want.dedup();
    if after_list != want {
        report.violation("migrate:stray-files", format!("{}: after a successful migration the directory holds {after_list:?} (expected {want:?})", src.class), replay.clone());
    }
    if src.class == "synth-damaged-head" || src.class == "synth-damaged-marker" {
        report.violation("migrate:damaged-source-accepted", format!("{}: a legacy source with a damaged record head / a marker whose token does not match was migrated (report: {report_counts:?}) instead of being refused", src.class), replay.clone());
    }
    if src.class == "synth-ambiguous-marker" && !src.allow_legacy {
        report.violation("migrate:ambiguous-accepted", "ambiguous legacy marker accepted without the opt-in".to_string(), replay.clone());
    }
    if src.class == "synth-v3-source" {
        report.violation("migrate:v3-source-accepted", "a v3 source was migrated".to_string(), replay.clone());
    }
    let dimg = std::fs::read(&dest).unwrap_or_default();
    let dscan = match indep::scan(&dimg, None, false) {
        Ok(s) => s,
        Err(e) => {
            report.violation("migrate:destination-unreadable", format!("{}: independent reader cannot read the destination: {e}", src.class), replay.clone());
            return;
        }
    };
    if dscan.version != 3 {
        report.violation("migrate:destination-version", format!("destination is v{}", dscan.version), replay.clone());
    }
    let got = logical_of_scan(&dscan);
    if src.class == "synth-journal-over-live-tail" {
        // judged against the real recovery of a copy of the source (what "a recovery of the source yields")
        let copy = format!("{dir}/copy.feox");
        std::fs::write(&copy, &src.image).unwrap();
        let mut c = Cfg::disk((src.image.len() / BLOCK) as u64);
        c.ttl = false;
        c.cache = false;
        c.cpus = 2;
        match storeutil::open(&c, Some(&copy)) {
            Ok(st) => {
                let d = storeutil::dump(&st);
                let real: Logical = d.iter().filter_map(|(k, v)| v.value.as_ref().ok().map(|val| (k.clone(), (val.clone(), v.ts, v.expiry)))).collect();
                if real != got {
                    let diff: Vec<String> = real.iter().filter(|(k, v)| got.get(*k) != Some(v)).map(|(k, v)| format!("{}: recovery yields {} (ts {}) -> destination {:?}", hex(k), values::describe(&v.0), v.1, got.get(k).map(|g| (values::describe(&g.0), g.1)))).take(4).collect();
                    let extra: Vec<String> = got.keys().filter(|k| !real.contains_key(*k)).map(|k| hex(k)).take(4).collect();
                    report.violation("migrate:contents-differ", format!("{}: the migration succeeded, but the destination differs from what an ordinary recovery of the same source yields: {diff:?}; only in destination: {extra:?}", src.class), replay.clone());
                }
                report.count("journal_over_live_tail_compared_with_real_recovery", 1);
                crate::engines::crash::REAPER.with_store(st);
            }
            Err(e) => report.inconclusive.push(format!("{}: migration succeeded but the real store cannot open a copy of the source: {e:?}", src.class)),
        }
        let _ = std::fs::remove_file(&copy);
        return;
    }
    match &expected {
        Ok((sv, exp)) => {
            if *exp != got {
                let diff: Vec<String> = exp.iter().filter(|(k, v)| got.get(*k) != Some(v)).map(|(k, v)| format!("{}: source ts {} expiry {} -> dest {:?}", hex(k), v.1, v.2, got.get(k).map(|g| (g.1, g.2)))).take(4).collect();
                let extra: Vec<String> = got.keys().filter(|k| !exp.contains_key(*k)).map(|k| hex(k)).take(4).collect();
                report.violation("migrate:contents-differ", format!("{}: destination differs from what recovery of the source yields: {diff:?}; only in destination: {extra:?}", src.class), replay.clone());
            }
            report.count("records_compared", exp.len() as u64);
            if let Some((records, value_bytes, source_version, dest_version, dest_size, _amb)) = report_counts {
                let vb: u64 = exp.values().map(|v| v.0.len() as u64).sum();
                if records != exp.len() as u64 || value_bytes != vb || source_version != *sv || dest_version != 3 || dest_size != dimg.len() as u64 {
                    report.violation("migrate:report-counts", format!("MigrationReport says records {records} bytes {value_bytes} v{source_version}->v{dest_version} size {dest_size}; actual {} records, {vb} bytes, v{sv}, file {}", exp.len(), dimg.len()), replay.clone());
                }
            }
            // three-way: the real store opened on a COPY of the source, TTL off
            let copy = format!("{dir}/copy.feox");
            std::fs::write(&copy, &src.image).unwrap();
            let mut c = Cfg::disk((src.image.len() / BLOCK) as u64);
            c.ttl = false;
            c.cache = false;
            c.cpus = 2;
            c.allow_legacy = src.allow_legacy;
            match storeutil::open(&c, Some(&copy)) {
                Ok(st) => {
                    let d = storeutil::dump(&st);
                    let real: Logical = d.iter().filter_map(|(k, v)| v.value.as_ref().ok().map(|val| (k.clone(), (val.clone(), v.ts, v.expiry)))).collect();
                    if real != *exp {
                        report.inconclusive.push(format!("{}: real recovery of the source copy and the independent reader disagree ({} vs {} keys)", src.class, real.len(), exp.len()));
                    } else {
                        report.count("three_way_agreements", 1);
                    }
                    crate::engines::crash::REAPER.with_store(st);
                }
                Err(e) => report.inconclusive.push(format!("{}: real store cannot open a copy of the source: {e:?}", src.class)),
            }
            let _ = std::fs::remove_file(&copy);
            // destination opens with the current code: TTL on hides expired winners and nothing older appears
            for ttl in [true, false] {
                let dcopy = format!("{dir}/dcopy.feox");
                std::fs::write(&dcopy, &dimg).unwrap();
                let mut c = Cfg::disk((dimg.len() / BLOCK) as u64);
                c.ttl = ttl;
                c.cache = false;
                c.cpus = 2;
                match storeutil::open(&c, Some(&dcopy)) {
                    Ok(st) => {
                        let now = std::time::SystemTime::now().duration_since(std::time::UNIX_EPOCH).unwrap().as_nanos() as u64;
                        let d = storeutil::dump(&st);
                        for (k, (v, ts, exp_)) in exp {
                            let expired = *exp_ > 0 && now > *exp_;
                            match d.get(k) {
                                Some(x) if !(ttl && expired) => {
                                    if x.ts != *ts || x.expiry != *exp_ || x.value.as_ref().ok() != Some(v) {
                                        report.violation("migrate:reopen-differs", format!("{}: destination reopened (ttl={ttl}) shows {} with ts {} expiry {}", src.class, hex(k), x.ts, x.expiry), replay.clone());
                                    }
                                }
                                Some(x) => {
                                    // TTL on and expired: get must not return anything
                                    if x.value.is_ok() {
                                        report.violation("migrate:expired-visible", format!("{}: expired winner {} readable after migration with TTL on", src.class, hex(k)), replay.clone());
                                    }
                                }
                                None if ttl && expired => {}
                                None => report.violation("migrate:reopen-missing", format!("{}: key {} missing when the destination is reopened (ttl={ttl})", src.class, hex(k)), replay.clone()),
                            }
                        }
                        if d.keys().any(|k| !exp.contains_key(k)) {
                            report.violation("migrate:reopen-extra", format!("{}: destination reopened (ttl={ttl}) exposes keys the source recovery does not", src.class), replay.clone());
                        }
                        report.count("destination_reopens", 1);
                        crate::engines::crash::REAPER.with_store(st);
                    }
                    Err(e) => report.violation("migrate:destination-does-not-open", format!("{}: destination cannot be opened by the current code (ttl={ttl}): {e:?}", src.class), replay.clone()),
                }
                let _ = std::fs::remove_file(&dcopy);
            }
            report.nontrivial.insert(fnv_mix(fnv(src.class.as_bytes()), fnv_mix(exp.len() as u64, *sv as u64)));
        }
        Err(e) => {
            // damaged / ambiguous sources the independent reader rejects may still be migratable
            // (v1/v2 scanning skips unparsable blocks); nothing to compare against
            report.count("success_without_reference", 1);
            let _ = e;
        }
    }
    report.count("successes", 1);
    if report.samples.len() < 2 {
        report.sample(json!({"source": n, "class": src.class, "source_bytes": src.image.len(), "records": got.len(), "via_cli": use_cli}));
    }
    let _ = std::fs::remove_dir_all(&dir);
}

pub fn run(args: &Args) -> Report {
    let mut report = Report::new(
        "migrate",
        "legacy sources: (a) produced by the real engine running workloads on v1/v2 devices (updates, deletes, extent reuse, multi-block values, TTLs and TTL-only updates on v2; occasionally >256 / >4096 records to cross the scan-batch and flush thresholds), (b) synthesised by the independent codec: duplicates in either disk order, expired newest generation shadowing an older one, record ending at the last block, v1 keys of 4067-4074 bytes, ambiguous legacy markers with and without the opt-in, damaged blocks / non-zero tokens / bad marker tokens, v3 source, active allocation journal; 10 % with a pre-existing destination, and in a further share the destination is created by somebody else while the migration is writing its temporary copy (hook on the first device write of an unwatched file). Checked: source bytes unchanged (hash), directory listing (failure: unchanged; success: exactly the destination added), existing destination untouched, destination = v3 whose independent decode equals the independent recovery of the source (TTL filtering off) and the real store's recovery of a copy of the source, destination reopens with TTL on (expired winners invisible, nothing older appears) and off, MigrationReport counts, CLI exit codes on a sample. distinct = (source class, record count, source version) / (class, error)",
    );
    let shard = args.num("shard", 0);
    let shards = args.num("shards", 1).max(1);
    let total = args.num("sources", if args.thorough() { 3000 } else { 150 });
    let scratch = storeutil::Scratch(storeutil::scratch_dir(&format!("mig{shard}")));
    let cli = args.get("cli").map(|s| s.to_string());
    if let (Some(cli), 0) = (&cli, shard) {
        // usage errors use exit code 2, --help / --version exit 0
        for (argv, want) in [(vec!["--bogus"], 2), (vec!["--source", "/nonexistent"], 2), (vec!["--help"], 0), (vec!["--version"], 0), (vec!["--source", "/nonexistent/a", "--destination", "/nonexistent/b"], 1)] {
            match std::process::Command::new(cli).args(&argv).output() {
                Ok(o) => {
                    report.count("cli_usage_probes", 1);
                    if o.status.code() != Some(want) {
                        report.violation("migrate:cli-exit-code", format!("feox-migrate {argv:?} exited with {:?}, expected {want}", o.status.code()), json!({"engine": "migrate", "argv": argv}));
                    }
                }
                Err(e) => report.inconclusive.push(format!("cli spawn failed: {e}")),
            }
        }
    }
    let jobs: Vec<u64> = (0..total).filter(|n| n % shards == shard).collect();
    let queue = std::sync::Arc::new(parking_lot::Mutex::new(jobs));
    let merged = std::sync::Arc::new(parking_lot::Mutex::new(Report::new("migrate", "")));
    let mut handles = Vec::new();
    for _ in 0..args.num("threads", 12) {
        let (queue, merged, root, cli) = (queue.clone(), merged.clone(), scratch.0.clone(), cli.clone());
        let seed = args.seed;
        handles.push(std::thread::spawn(move || {
            let mut local = Report::new("migrate", "");
            loop {
                let Some(n) = queue.lock().pop() else { break };
                one(&mut local, seed, n, &root, cli.as_deref());
                if local.violations.len() >= 5 {
                    break;
                }
            }
            merged.lock().merge(local);
        }));
    }
    for h in handles {
        if h.join().is_err() {
            report.inconclusive.push("HARNESS-PANIC: a migrate worker thread panicked (its results are lost)".into());
        }
    }
    let m = std::sync::Arc::try_unwrap(merged).ok().unwrap().into_inner();
    report.merge(m);
    crate::engines::crash::REAPER.wait();
    report
}
