//! E-live: bounded progress.
//!  * `wb`   (C19): write-behind without explicit flush — pending work must drain, the durable
//!            prefix must then hold exactly the model, for every shard/worker count.
//!  * `live` (C18): contention scenarios in child processes under a watchdog; a child that does
//!            not finish is judged by a stall signature (no thread consumes CPU), not by the clock.

use crate::args::Args;
use crate::crashimg::{self, Recipe};
use crate::engines::crash::recover_image;
use crate::engines::layout;
use crate::indep;
use crate::mon::{hub, Fault, FaultPlan, SchedCtl};
use crate::report::{hex, Report};
use crate::rng::{fnv, fnv_mix, Rng};
use crate::storeutil::{self, Cfg};
use crate::values::{self, Tag};
use serde_json::{json, Value};
use std::collections::BTreeMap;
use std::sync::atomic::{AtomicBool, Ordering};
use std::sync::Arc;
use std::time::{Duration, Instant};

fn kid(k: &[u8]) -> u32 {
    (fnv(k) & 0xffff_ffff) as u32
}

// ------------------------------------------------------------------ C19

fn wb_run(report: &mut Report, seed: u64, rid: u64, dir: &str) {
    let mut rng = Rng::derive(seed, rid, 0x3b);
    let cpus = [2usize, 4, 6, 8, 10, 12, 14, 16][(rid % 8) as usize];
    let pattern = (rid / 8) % 7; // 6 = a write after seconds of idleness; 0 small burst, 1 buffer-filling burst, 2 overwrite/delete of durable keys, 3 busy neighbour, 4 swept TTL keys, 5 retirements deferred by readers
    let mut cfg = Cfg::disk(16 + 16384);
    cfg.cpus = cpus;
    cfg.cache = rng.chance(1, 2);
    cfg.sync_io = rng.chance(1, 3);
    cfg.ttl = pattern == 4;
    let path = format!("{dir}/wb-{rid}.feox");
    let _ = std::fs::remove_file(&path);
    storeutil::ensure_device(&cfg, &path);
    let base = vec![0u8; cfg.blocks as usize * 4096];
    let mon = hub().watch(&path);
    let store = match storeutil::open(&cfg, Some(&path)) {
        Ok(s) => Arc::new(s),
        Err(e) => {
            report.inconclusive.push(format!("open failed: {e:?}"));
            return;
        }
    };
    let shards = store.verif_pending().map(|p| p.shard_counts.len()).unwrap_or(0);
    let mut model: BTreeMap<Vec<u8>, Vec<u8>> = BTreeMap::new();
    let mut seq = 0u32;
    let mut put = |store: &feoxdb::FeoxStore, model: &mut BTreeMap<Vec<u8>, Vec<u8>>, k: Vec<u8>, len: usize| {
        seq += 1;
        let v = values::make(Tag { key_id: kid(&k), writer: 0, seq }, len);
        store.insert(&k, &v).expect("insert");
        model.insert(k, v);
    };
    let nkeys = match pattern {
        // a single shard gets exactly one full batch (1024 entries) of real writes; what follows it in the same
        // drain are insert+delete pairs that cancel out and need no device I/O at all
        1 if shards == 1 => 1024,
        1 => 1100 * shards.max(1),
        4 => 40 * shards.max(1),
        _ => 64 * shards.max(1) + rng.usize_below(64),
    };
    // phase 0 for pattern 2: make keys durable first (still without flush: wait for the flusher)
    let replay = json!({"engine": "live", "mode": "wb", "seed": seed, "run": rid, "cpus": cpus, "shards": shards, "pattern": pattern, "config": cfg.label()});
    let wait_drained = |store: &feoxdb::FeoxStore, what: &str| -> Result<f64, (String, String)> {
        let t0 = Instant::now();
        let mut last_len = mon.len();
        let mut last_activity = Instant::now();
        loop {
            let p = store.verif_pending().unwrap();
            let queued: usize = p.shard_queued.iter().sum();
            if queued == 0 && p.retirements == 0 {
                // entries being processed right now are not queued any more; confirm via the index
                let snap = store.verif_snapshot();
                if snap.entries.iter().all(|e| e.sector > 0) {
                    // a worker that has already taken the retirement queue may still be writing markers:
                    // the state is only judged once the device has also been quiet for 350 ms
                    let drained_at = t0.elapsed().as_secs_f64();
                    let mut len = mon.len();
                    let mut quiet_since = Instant::now();
                    loop {
                        std::thread::sleep(Duration::from_millis(10));
                        let l = mon.len();
                        if l != len {
                            len = l;
                            quiet_since = Instant::now();
                        }
                        if quiet_since.elapsed() > Duration::from_millis(350) {
                            break;
                        }
                        if t0.elapsed() > Duration::from_secs(40) {
                            return Err(("wb:slow".into(), "device never became quiet within 40 s".into()));
                        }
                    }
                    let p = store.verif_pending().unwrap();
                    if p.shard_queued.iter().sum::<usize>() == 0 && p.retirements == 0 {
                        return Ok(drained_at);
                    }
                    continue;
                }
            }
            let l = mon.len();
            if l != last_len {
                last_len = l;
                last_activity = Instant::now();
            }
            if t0.elapsed() > Duration::from_secs(10) && last_activity.elapsed() > Duration::from_secs(5) {
                return Err((
                    "wb:stuck".into(),
                    format!("{what}: {}s after the last call returned, without any explicit flush, work is still pending (queued per shard {:?}, retirements {}) and the device has been idle for 5 s", t0.elapsed().as_secs(), p.shard_queued, p.retirements),
                ));
            }
            if t0.elapsed() > Duration::from_secs(40) {
                return Err(("wb:slow".into(), "pending work did not drain within 40 s although the device stayed busy".into()));
            }
            std::thread::sleep(Duration::from_millis(5));
        }
    };
    if pattern == 4 {
        // keys with a 1 s TTL become durable, then expire; the sweeper removes them and their
        // extents must be retired by the write-behind path alone
        for i in 0..nkeys {
            let k = format!("wb-{i:05}").into_bytes();
            let v = values::make(Tag { key_id: kid(&k), writer: 0, seq: i as u32 }, 100);
            store.insert_with_ttl(&k, &v, 1).expect("insert_with_ttl");
        }
        if let Err((sig, msg)) = wait_drained(&store, "initial fill (ttl)") {
            if sig == "wb:slow" {
                report.inconclusive.push(msg);
            } else {
                report.violation(sig, msg, replay.clone());
            }
            return;
        }
        store.start_ttl_sweeper(Some(feoxdb::core::ttl_sweep::TtlConfig { sample_size: 256, expiry_threshold: 0.01, max_iterations: 64, max_time_per_run: Duration::from_millis(20), sleep_interval: Duration::from_millis(1), enabled: true }));
        feoxdb::verif::advance_clock_ns(3_000_000_000);
        let t0 = Instant::now();
        while store.len() > 0 && t0.elapsed() < Duration::from_secs(20) {
            std::thread::sleep(Duration::from_millis(5));
        }
        if store.len() > 0 {
            report.inconclusive.push(format!("run {rid}: sweeper did not remove all expired keys within 20 s ({} left)", store.len()));
            return;
        }
        report.count("swept_keys", nkeys as u64);
        match wait_drained(&store, "retirement of swept generations") {
            Err((sig, msg)) if sig == "wb:slow" => report.inconclusive.push(msg),
            Err((sig, msg)) => report.violation(sig, msg, replay.clone()),
            Ok(secs) => {
                report.max("max_swept_retirement_ms", (secs * 1000.0) as u64);
                let events = mon.events();
                let durable = crashimg::build(&base, &events, &Recipe { cut: events.len(), keep: vec![], tear: None });
                match indep::scan(&durable, None, false) {
                    Ok(sc) if sc.heads.is_empty() => {
                        report.nontrivial.insert(fnv_mix(fnv_mix(shards as u64, pattern), sc.markers.len() as u64));
                        report.count("markers_seen", sc.markers.len() as u64);
                        // second phase, sweeper still running: keys that are expired from the start (explicit
                        // timestamp an hour back, 1 s to live). The sweeper removes most of them BEFORE the
                        // write-behind path has written them; whatever reaches the device must be retired again
                        let wall = std::time::SystemTime::now().duration_since(std::time::UNIX_EPOCH).map(|d| d.as_nanos() as u64).unwrap_or(0);
                        let old_ts = feoxdb::verif::now_ns(wall) - 3_600_000_000_000;
                        let n2 = 24 * shards.max(1);
                        for i in 0..n2 {
                            let k = format!("wx-{i:05}").into_bytes();
                            let v = values::make(Tag { key_id: kid(&k), writer: 1, seq: i as u32 }, 100 + (i % 3) * 3000);
                            store.insert_with_ttl_and_timestamp(&k, &v, 1, Some(old_ts + i as u64)).expect("insert of an already expired key");
                            if i % 16 == 15 {
                                std::thread::sleep(Duration::from_millis(rng.range(0, 40)));
                            }
                        }
                        let t1 = Instant::now();
                        while store.len() > 0 && t1.elapsed() < Duration::from_secs(20) {
                            std::thread::sleep(Duration::from_millis(5));
                        }
                        if store.len() > 0 {
                            report.inconclusive.push(format!("run {rid}: sweeper did not remove all born-expired keys within 20 s ({} left)", store.len()));
                            return;
                        }
                        match wait_drained(&store, "retirement of generations swept before they were written") {
                            Err((sig, msg)) if sig == "wb:slow" => report.inconclusive.push(msg),
                            Err((sig, msg)) => report.violation(sig, msg, replay.clone()),
                            Ok(_) => {
                                let events = mon.events();
                                let durable = crashimg::build(&base, &events, &Recipe { cut: events.len(), keep: vec![], tear: None });
                                report.count("born_expired_keys_swept", n2 as u64);
                                match indep::scan(&durable, None, false) {
                                    Ok(sc) if sc.heads.is_empty() => {
                                        let snap = store.verif_snapshot();
                                        if snap.disk_usage != 0 || snap.free_by_start.len() != 1 {
                                            report.violation("wb:swept-space-not-returned", format!("all keys swept and pending work drained without flush, yet disk_usage = {} and the free runs are {:?}", snap.disk_usage, snap.free_by_start.iter().take(6).collect::<Vec<_>>()), replay.clone());
                                        }
                                    }
                                    Ok(sc) => report.violation("wb:swept-not-retired", format!("{} generations that were swept before (or while) they were written are valid records on the device after pending work drained without flush", sc.heads.len()), replay.clone()),
                                    Err(e) => report.violation("wb:decode", format!("independent decode failed: {e}"), replay.clone()),
                                }
                            }
                        }
                    }
                    Ok(sc) => report.violation("wb:swept-not-retired", format!("{} swept generations are still valid records on the device after pending work drained without flush", sc.heads.len()), replay.clone()),
                    Err(e) => report.violation("wb:decode", format!("independent decode failed: {e}"), replay.clone()),
                }
            }
        }
        report.evaluations += 1;
        report.count("runs", 1);
        report.count(&format!("runs_shards_{shards}"), 1);
        report.count("runs_pattern_4", 1);
        hub().unwatch(&mon);
        drop(store);
        let _ = std::fs::remove_file(&path);
        return;
    }
    if pattern == 6 {
        // a store that has been idle for seconds, then one write and one delete: the flush interval is a
        // property of the store, not of how recently it was used. The time until both are durable is judged
        // against a generous bound (2.5 s against the documented 100 ms interval), and only if a probe thread
        // shows that the machine itself was responsive meanwhile
        for i in 0..16 {
            put(&store, &mut model, format!("wb-{i:05}").into_bytes(), 100);
        }
        if let Err((sig, msg)) = wait_drained(&store, "initial fill") {
            if sig == "wb:slow" {
                report.inconclusive.push(msg);
            } else {
                report.violation(sig, msg, replay.clone());
            }
            return;
        }
        std::thread::sleep(Duration::from_millis(3200 + rng.range(0, 600)));
        let stop = Arc::new(AtomicBool::new(false));
        let probe = {
            let stop = stop.clone();
            std::thread::spawn(move || {
                let mut worst = 0u128;
                while !stop.load(Ordering::Relaxed) {
                    let t = Instant::now();
                    std::thread::sleep(Duration::from_millis(5));
                    worst = worst.max(t.elapsed().as_millis().saturating_sub(5));
                }
                worst
            })
        };
        put(&store, &mut model, b"wb-late".to_vec(), 200);
        store.delete(b"wb-00003").expect("delete");
        model.remove(b"wb-00003".as_slice());
        let t0 = Instant::now();
        let mut durable_after = None;
        while t0.elapsed() < Duration::from_secs(12) {
            let p = store.verif_pending().unwrap();
            if store.verif_entry(b"wb-late").is_some_and(|e| e.sector > 0) && p.shard_queued.iter().sum::<usize>() == 0 && p.retirements == 0 {
                durable_after = Some(t0.elapsed().as_secs_f64());
                break;
            }
            std::thread::sleep(Duration::from_millis(5));
        }
        stop.store(true, Ordering::Relaxed);
        let worst_oversleep_ms = probe.join().unwrap_or(10_000);
        report.evaluations += 1;
        report.count("runs", 1);
        report.count("runs_pattern_6", 1);
        report.count(&format!("runs_shards_{shards}"), 1);
        match durable_after {
            Some(s) => {
                report.max("max_after_idle_durable_ms", (s * 1000.0) as u64);
                if s > 2.5 && worst_oversleep_ms < 250 {
                    report.violation(
                        "wb:late-after-idle",
                        format!("a write and a delete accepted after {:.1} s of idleness became durable only after {s:.2} s without any flush (flush interval 100 ms; the machine was responsive: worst scheduling delay of a probe thread {worst_oversleep_ms} ms)", 3.2),
                        replay.clone(),
                    );
                } else {
                    report.nontrivial.insert(fnv_mix(fnv_mix(shards as u64, pattern), (s * 10.0) as u64));
                }
            }
            None if worst_oversleep_ms < 250 => report.violation("wb:stuck", "a write accepted after seconds of idleness was still not durable 12 s later, without any flush, on a responsive machine".to_string(), replay.clone()),
            None => report.inconclusive.push("after-idle write not durable within 12 s, but the machine was not responsive".into()),
        }
        hub().unwatch(&mon);
        drop(store);
        let _ = std::fs::remove_file(&path);
        return;
    }
    if pattern == 5 {
        // durable keys are overwritten while readers sit inside reads of the old generations (delayed
        // 300 ms after taking their pin): the flusher has to defer those retirements. Afterwards nobody
        // writes any more, so only the periodic coordinator can get the deferred retirements done.
        for i in 0..nkeys {
            put(&store, &mut model, format!("wb-{i:05}").into_bytes(), 100);
        }
        if let Err((sig, msg)) = wait_drained(&store, "initial fill") {
            if sig == "wb:slow" {
                report.inconclusive.push(msg);
            } else {
                report.violation(sig, msg, replay.clone());
            }
            return;
        }
        // the values are on the device only now (cache is cold for these keys)
        hub().set_sched(Some(Arc::new(SchedCtl::new(seed ^ rid, 0, 0).target("read.pinned.unlocked", 1000, 300_000))));
        let mut readers = Vec::new();
        for r in 0..4usize {
            let s = store.clone();
            readers.push(std::thread::spawn(move || {
                for i in 0..3 {
                    let k = format!("wb-{:05}", r * 3 + i).into_bytes();
                    let _ = s.get(&k);
                }
            }));
        }
        std::thread::sleep(Duration::from_millis(60));
        for i in 0..12.min(nkeys) {
            put(&store, &mut model, format!("wb-{i:05}").into_bytes(), 140);
        }
        let mut deferred = 0usize;
        while readers.iter().any(|r| !r.is_finished()) {
            if let Some(p) = store.verif_pending() {
                if p.shard_queued.iter().all(|q| *q == 0) {
                    deferred = deferred.max(p.retirements);
                }
            }
            std::thread::sleep(Duration::from_millis(5));
        }
        for r in readers {
            let _ = r.join();
        }
        hub().set_sched(None);
        report.count("retirements_deferred_by_readers", deferred as u64);
        match wait_drained(&store, "retirements deferred by readers") {
            Err((sig, msg)) if sig == "wb:slow" => report.inconclusive.push(msg),
            Err((sig, msg)) => report.violation(sig, msg, replay.clone()),
            Ok(secs) => {
                report.max("max_deferred_retirement_ms", (secs * 1000.0) as u64);
                let events = mon.events();
                let durable = crashimg::build(&base, &events, &Recipe { cut: events.len(), keep: vec![], tear: None });
                match indep::scan(&durable, None, false) {
                    Ok(sc) if sc.heads.len() == sc.records.len() => {
                        report.nontrivial.insert(fnv_mix(fnv_mix(shards as u64, pattern), deferred as u64));
                    }
                    Ok(sc) => report.violation("wb:superseded-not-retired", format!("{} superseded generations are still valid records on the device after pending work drained without flush", sc.heads.len() - sc.records.len()), replay.clone()),
                    Err(e) => report.violation("wb:decode", format!("independent decode failed: {e}"), replay.clone()),
                }
            }
        }
        report.evaluations += 1;
        report.count("runs", 1);
        report.count(&format!("runs_shards_{shards}"), 1);
        report.count("runs_pattern_5", 1);
        hub().unwatch(&mon);
        drop(store);
        let _ = std::fs::remove_file(&path);
        return;
    }
    if pattern == 2 {
        for i in 0..nkeys {
            put(&store, &mut model, format!("wb-{i:05}").into_bytes(), 100);
        }
        if let Err((sig, msg)) = wait_drained(&store, "initial fill") {
            if sig == "wb:slow" {
                report.inconclusive.push(msg);
            } else {
                report.violation(sig, msg, replay.clone());
            }
            return;
        }
    }
    let stop = Arc::new(AtomicBool::new(false));
    let neighbour = if pattern == 3 {
        let (s, stop) = (store.clone(), stop.clone());
        Some(std::thread::spawn(move || {
            let mut n = 0u64;
            let t0 = Instant::now();
            while !stop.load(Ordering::Relaxed) && t0.elapsed() < Duration::from_millis(1500) {
                let k = format!("busy-{:04}", n % 500).into_bytes();
                let _ = s.insert(&k, &values::make(Tag { key_id: kid(&k), writer: 7, seq: n as u32 }, 60));
                n += 1;
                std::thread::sleep(Duration::from_micros(200));
            }
            n
        }))
    } else {
        None
    };
    // the writes under test
    for i in 0..nkeys {
        let k = format!("wb-{i:05}").into_bytes();
        if pattern == 2 && i % 3 == 0 {
            store.delete(&k).expect("delete");
            model.remove(&k);
        } else {
            let len = if pattern == 1 { 30 } else { *rng.pick(&[40usize, 300, 4100, 9000]) };
            put(&store, &mut model, k, len);
        }
    }
    if pattern == 1 && shards == 1 {
        for i in 0..400 {
            let k = format!("cancel-{i:04}").into_bytes();
            let _ = store.insert(&k, &values::make(Tag { key_id: kid(&k), writer: 3, seq: i }, 30));
            let _ = store.delete(&k);
        }
        report.count("runs_with_trailing_batches_without_io", 1);
    }
    let occupancy = store.verif_pending().map(|p| p.shard_counts.clone()).unwrap_or_default();
    let last_return = Instant::now();
    // target keys durable?
    let targets: Vec<Vec<u8>> = model.keys().cloned().collect();
    let mut target_latency = None;
    let t0 = Instant::now();
    while t0.elapsed() < Duration::from_secs(12) {
        if targets.iter().all(|k| store.verif_entry(k).map(|e| e.sector > 0).unwrap_or(false)) {
            target_latency = Some(last_return.elapsed().as_secs_f64());
            break;
        }
        std::thread::sleep(Duration::from_millis(5));
    }
    stop.store(true, Ordering::Relaxed);
    if let Some(n) = neighbour {
        let n = n.join().unwrap_or(0);
        report.count("busy_neighbour_writes", n);
        for i in 0..500.min(n) {
            let k = format!("busy-{i:04}").into_bytes();
            if let Ok(v) = store.get(&k) {
                model.insert(k, v);
            }
        }
    }
    let drained = wait_drained(&store, "write-behind");
    report.evaluations += 1;
    report.count("runs", 1);
    report.count(&format!("runs_shards_{shards}"), 1);
    report.count(&format!("runs_pattern_{pattern}"), 1);
    let hit = occupancy.iter().filter(|c| **c > 0).count();
    report.count("shards_total", shards as u64);
    report.count("shards_hit_at_last_return", hit as u64);
    match drained {
        Err((sig, msg)) => {
            if sig == "wb:slow" {
                report.inconclusive.push(format!("run {rid}: {msg}"));
            } else {
                report.violation(sig, msg, replay.clone());
            }
            return;
        }
        Ok(secs) => {
            let ms = (secs * 1000.0) as u64;
            report.max("max_drain_ms", ms);
            report.count("drain_ms_total", ms);
            if ms > 1000 {
                report.count("runs_slower_than_1s", 1);
            }
        }
    }
    match target_latency {
        Some(s) => report.max("max_target_durable_ms", (s * 1000.0) as u64),
        None => report.violation("wb:targets-not-durable", "accepted writes still have no extent on the device 12 s after the call returned, without explicit flush".to_string(), replay.clone()),
    }
    // the durable prefix at this point must hold exactly the model
    let events = mon.events();
    let durable = crashimg::build(&base, &events, &Recipe { cut: events.len(), keep: vec![], tear: None });
    let all = crashimg::volatile(&events, events.len());
    report.count("volatile_writes_left", all.len() as u64);
    let rp = format!("{dir}/wb-{rid}.img");
    match recover_image(&durable, &rp, 3, false, false) {
        Err(e) => report.violation("wb:durable-prefix-unreadable", format!("durable prefix after draining cannot be opened: {e}"), replay.clone()),
        Ok((rec, _)) => {
            let mut bad = None;
            for (k, v) in &model {
                match rec.dump.get(k) {
                    Some(d) if d.value.as_ref().ok() == Some(v) => {}
                    other => {
                        bad = Some(format!("key {} is {:?} on the device, model has {}", hex(k), other.map(|d| d.value.as_ref().map(|v| values::describe(v)).unwrap_or_else(|e| e.clone())), values::describe(v)));
                        break;
                    }
                }
            }
            if bad.is_none() && rec.dump.len() != model.len() {
                bad = Some(format!("{} keys on the device, {} in the model (deleted keys still durable?)", rec.dump.len(), model.len()));
            }
            if let Some(b) = bad {
                report.violation("wb:not-durable-after-drain", format!("pending work drained without flush, but the durable prefix differs from the accepted state: {b}"), replay.clone());
            } else {
                report.nontrivial.insert(fnv_mix(fnv_mix(shards as u64, pattern), (secs_bucket(&events)) as u64));
            }
        }
    }
    // retirement half: superseded extents carry complete markers, space adds up (independent decode)
    let scan = indep::scan(&durable, None, false);
    match scan {
        Ok(sc) => {
            if sc.heads.len() != sc.records.len() {
                report.violation("wb:superseded-not-retired", format!("{} superseded generations are still valid records on the device after pending work drained", sc.heads.len() - sc.records.len()), replay.clone());
            }
            if let Some(j) = &sc.journal {
                if !j.extents.is_empty() {
                    report.violation("wb:journal-active", "allocation journal still active after pending work drained".to_string(), replay.clone());
                }
            }
            report.count("markers_seen", sc.markers.len() as u64);
        }
        Err(e) => report.violation("wb:decode", format!("independent decode of the durable prefix failed: {e}"), replay.clone()),
    }
    let snap = store.verif_snapshot();
    if let Err((sig, msg)) = layout::check_partition(&snap, 3, &[]) {
        report.violation(format!("wb:{sig}"), msg, replay.clone());
    }
    let pattern_name = ["small burst", "buffer-filling burst", "overwrite/delete of durable keys", "busy neighbour", "swept ttl keys", "deferred retirements", "write after idleness"][pattern as usize];
    if report.samples.len() < 2 {
        report.sample(json!({"run": rid, "cpus": cpus, "shards": shards, "pattern": pattern_name, "keys": nkeys, "shard_occupancy_at_last_return": occupancy, "target_durable_s": target_latency, "trace_events": events.len()}));
    }
    hub().unwatch(&mon);
    drop(store);
    let _ = std::fs::remove_file(&path);
}

fn secs_bucket(events: &[crate::mon::Ev]) -> usize {
    events.len() / 50
}

/// The write buffer driven directly (public `WriteBuffer` API) with FEWER WORKERS THAN SHARDS - a configuration
/// `FeoxStore` never builds but the property speaks about ("however many shards and workers"): one worker walks
/// several shards. Nobody calls flush. Patterns: (0) records spread over every shard; (1) a full device, one key
/// deleted to make room and a new key written, the failing write and the delete on different shards of the same
/// worker in either order; (2) several writes waiting for room on different shards, several deletes elsewhere.
fn wb_direct(report: &mut Report, seed: u64, rid: u64, dir: &str) {
    use feoxdb::constants::Operation;
    use feoxdb::core::record::Record;
    use feoxdb::storage::free_space::FreeSpaceManager;
    use feoxdb::storage::io::DiskIO;
    use feoxdb::storage::write_buffer::WriteBuffer;
    use parking_lot::RwLock;
    let mut rng = Rng::derive(seed, rid, 0xd1ec7);
    let cpus = *rng.pick(&[4usize, 6, 8, 12, 16]);
    let pattern = rid % 3;
    let data_blocks: u64 = if pattern == 0 { 4096 } else { rng.range(2, 8) };
    let device_size = (16 + data_blocks) * 4096;
    let path = format!("{dir}/wbd-{rid}.dev");
    let _ = std::fs::remove_file(&path);
    let file = match std::fs::OpenOptions::new().read(true).write(true).create(true).truncate(true).open(&path) {
        Ok(f) => f,
        Err(e) => {
            report.inconclusive.push(format!("wb_direct: cannot create device: {e}"));
            return;
        }
    };
    file.set_len(device_size).unwrap();
    let mon = hub().watch(&path);
    mon.set_recording(false);
    let disk_io = Arc::new(RwLock::new(DiskIO::new(Arc::new(file), false).expect("DiskIO")));
    let free_space = Arc::new(RwLock::new(FreeSpaceManager::new()));
    free_space.write().initialize(device_size).expect("free space");
    let stats = Arc::new(feoxdb::stats::Statistics::new());
    let mut wb = storeutil::with_cpus(cpus, || WriteBuffer::new(disk_io, free_space.clone(), stats, 3));
    let shards = wb.verif_pending().shard_counts.len();
    if shards < 2 {
        report.inconclusive.push("wb_direct: only one shard available".into());
        return;
    }
    let workers = 1 + rng.usize_below(shards - 1); // 1 ..= shards-1: at least one worker owns several shards
    wb.start_workers(workers);
    let replay = json!({"engine": "live", "mode": "wb", "direct": true, "seed": seed, "run": rid, "pattern": pattern, "shards": shards, "workers": workers, "data_blocks": data_blocks});
    let mut nonce = 0u64;
    let mut record_on = |wb: &WriteBuffer, shard: usize, len: usize| -> Arc<Record> {
        loop {
            nonce += 1;
            let key = format!("d{rid}-{nonce}").into_bytes();
            if wb.verif_shard_of(&key) == shard {
                return Arc::new(Record::new(key, vec![b'v'; len], nonce));
            }
        }
    };
    let insert = |wb: &WriteBuffer, r: &Arc<Record>| wb.add_write(Operation::Insert, r.clone(), 0).is_ok();
    let delete = |wb: &WriteBuffer, r: &Arc<Record>| {
        r.refcount.store(0, Ordering::Release);
        wb.add_write(Operation::Delete, r.clone(), r.value_len).is_ok()
    };
    let durable = |r: &Arc<Record>| r.sector.load(Ordering::Acquire) != 0;
    // wait until `done`, judged logically: still not done after 12 s AND nothing moved for 5 s = stuck
    let settle = |wb: &WriteBuffer, done: &dyn Fn() -> bool| -> Result<u64, Option<String>> {
        let t0 = Instant::now();
        let mut last_change = Instant::now();
        let mut last_sig = (Vec::new(), 0usize, 0u32, 0u64);
        loop {
            let p = wb.verif_pending();
            if done() && p.retirements == 0 && p.shard_queued.iter().all(|q| *q == 0) {
                return Ok(t0.elapsed().as_millis() as u64);
            }
            let sig = (p.shard_queued.clone(), p.retirements, mon.calls(), free_space.read().get_total_free());
            if sig != last_sig {
                last_sig = sig;
                last_change = Instant::now();
            }
            if t0.elapsed() > Duration::from_secs(12) {
                if last_change.elapsed() > Duration::from_secs(5) {
                    return Err(Some(format!("queued per shard {:?}, retirements {}, free bytes {}, {} workers for {} shards", p.shard_queued, p.retirements, last_sig.3, workers, shards)));
                }
                if t0.elapsed() > Duration::from_secs(40) {
                    return Err(None);
                }
            }
            std::thread::sleep(Duration::from_millis(15));
        }
    };
    let mut verdict: Option<(String, String)> = None;
    let mut drain_ms = 0;
    match pattern {
        0 => {
            let recs: Vec<Arc<Record>> = (0..shards * 24).map(|i| record_on(&wb, i % shards, if i % 5 == 0 { 6000 } else { 200 })).collect();
            for r in &recs {
                insert(&wb, r);
            }
            match settle(&wb, &|| recs.iter().all(durable)) {
                Ok(ms) => drain_ms = ms,
                Err(Some(why)) => verdict = Some(("wb:direct-stuck".into(), format!("records spread over every shard were not all durable 12 s after the last call, nothing moving for 5 s, no flush: {why}"))),
                Err(None) => report.inconclusive.push("wb_direct: pattern 0 still moving after 40 s".into()),
            }
        }
        _ => {
            // fill the device with one-block records on random shards
            let fill: Vec<Arc<Record>> = (0..data_blocks as usize).map(|_| record_on(&wb, rng.usize_below(shards), 100)).collect();
            for r in &fill {
                insert(&wb, r);
            }
            match settle(&wb, &|| fill.iter().all(durable)) {
                Ok(_) => {}
                Err(Some(why)) => verdict = Some(("wb:direct-stuck".into(), format!("initial fill of {data_blocks} one-block records never became durable: {why}"))),
                Err(None) => report.inconclusive.push("wb_direct: initial fill still moving after 40 s".into()),
            }
            if verdict.is_none() {
                let pairs = if pattern == 1 { 1 } else { (data_blocks as usize / 2).max(1) };
                let mut news = Vec::new();
                let mut ops: Vec<(bool, usize)> = Vec::new(); // (is_write, index)
                for i in 0..pairs {
                    // the write waiting for room and the delete that makes it: shards in either order, often
                    // owned by the same worker
                    let a = rng.usize_below(shards);
                    let n = record_on(&wb, a, 100);
                    news.push(n);
                    ops.push((true, i));
                    ops.push((false, i));
                }
                rng.shuffle(&mut ops);
                for (is_write, i) in ops {
                    if is_write {
                        insert(&wb, &news[i]);
                    } else {
                        delete(&wb, &fill[i]);
                    }
                    if rng.chance(1, 3) {
                        std::thread::sleep(Duration::from_millis(rng.range(0, 160)));
                    }
                }
                match settle(&wb, &|| news.iter().all(durable)) {
                    Ok(ms) => {
                        drain_ms = ms;
                        let free = free_space.read().get_total_free();
                        if free != 0 {
                            verdict = Some(("wb:direct-space".into(), format!("{pairs} one-block records deleted and {pairs} written on a full {data_blocks}-block device: everything drained but {free} bytes are free (expected 0)")));
                        }
                    }
                    Err(Some(why)) => verdict = Some(("wb:direct-stuck".into(), format!("full {data_blocks}-block device, {pairs} key(s) deleted to make room and {pairs} new key(s) written, no flush: the new keys were not durable / the deletes not retired 12 s later and nothing had moved for 5 s: {why}"))),
                    Err(None) => report.inconclusive.push("wb_direct: make-room pattern still moving after 40 s".into()),
                }
            }
        }
    }
    report.evaluations += 1;
    report.count("direct_write_buffer_runs", 1);
    report.count(&format!("direct_pattern_{pattern}"), 1);
    report.count("direct_drain_ms_total", drain_ms);
    report.nontrivial.insert(fnv_mix(fnv_mix(0xd1, pattern), fnv_mix(shards as u64, workers as u64)));
    if let Some((sig, msg)) = verdict {
        report.violation(sig, msg, replay);
    }
    hub().unwatch(&mon);
    drop(wb);
    let _ = std::fs::remove_file(&path);
}

/// One key's writes fail for good (an I/O error on its payload only, not a space problem); everything else on the
/// device works. Deletes and overwrites of durable keys on the OTHER shards must still be retired by the background
/// passes - nobody calls flush. Judged logically: the retirement queue must empty and the deleted keys must be gone
/// from the durable image; "still pending after 12 s, not shrinking for 6 s, on a responsive machine" = stuck.
fn wb_poison(report: &mut Report, seed: u64, rid: u64, dir: &str) {
    let mut rng = Rng::derive(seed, rid, 0x9015);
    let cpus = *rng.pick(&[4usize, 6, 8, 12, 16]);
    let mut cfg = Cfg::disk(16 + 4096);
    cfg.cpus = cpus;
    cfg.cache = false;
    cfg.sync_io = rng.chance(1, 2);
    let path = format!("{dir}/wbp-{rid}.feox");
    let _ = std::fs::remove_file(&path);
    storeutil::ensure_device(&cfg, &path);
    let base = vec![0u8; cfg.blocks as usize * 4096];
    let mon = hub().watch(&path);
    let store = match storeutil::open(&cfg, Some(&path)) {
        Ok(s) => Arc::new(s),
        Err(e) => {
            report.inconclusive.push(format!("wb_poison: open failed: {e:?}"));
            return;
        }
    };
    let shards = store.verif_pending().map(|p| p.shard_counts.len()).unwrap_or(0);
    if shards < 2 {
        return;
    }
    let replay = json!({"engine": "live", "mode": "wb", "poisoned_key": true, "seed": seed, "run": rid, "cpus": cpus, "shards": shards, "config": cfg.label()});
    let settle = |want_retirements_zero: bool, allow_shard0: bool| -> Result<(), Option<String>> {
        let t0 = Instant::now();
        let mut best = usize::MAX;
        let mut best_at = Instant::now();
        let mut worst_oversleep = 0u128;
        loop {
            let p = store.verif_pending().unwrap();
            let others: usize = p.shard_queued.iter().enumerate().filter(|(i, _)| !(allow_shard0 && *i == 0)).map(|(_, q)| *q).sum();
            let pending = others + if want_retirements_zero { p.retirements } else { 0 };
            if pending == 0 {
                return Ok(());
            }
            if pending < best {
                best = pending;
                best_at = Instant::now();
            }
            if t0.elapsed() > Duration::from_secs(12) && best_at.elapsed() > Duration::from_secs(6) {
                if worst_oversleep > 400 {
                    return Err(None);
                }
                return Err(Some(format!("queued per shard {:?}, retirements {} (not shrinking for {} s)", p.shard_queued, p.retirements, best_at.elapsed().as_secs())));
            }
            if t0.elapsed() > Duration::from_secs(45) {
                return Err(None);
            }
            let s0 = Instant::now();
            std::thread::sleep(Duration::from_millis(10));
            worst_oversleep = worst_oversleep.max(s0.elapsed().as_millis().saturating_sub(10));
        }
    };
    // durable keys on every shard
    let n = 48 * shards;
    let keys: Vec<Vec<u8>> = (0..n).map(|i| format!("wp-{i:05}").into_bytes()).collect();
    // the shard of a key is learnt from which shard counter grows when it is inserted (None when a background drain
    // blurred the picture): only keys KNOWN to live on other shards than the failing one are judged
    let mut shard_of: Vec<Option<usize>> = Vec::with_capacity(n);
    for (i, k) in keys.iter().enumerate() {
        let before = store.verif_pending().unwrap().shard_counts.clone();
        let _ = store.insert(k, &values::make(Tag { key_id: kid(k), writer: 0, seq: i as u32 }, 100 + (i % 5) * 700));
        let after = store.verif_pending().unwrap().shard_counts.clone();
        let grown: Vec<usize> = (0..shards).filter(|s| after[*s] > before[*s]).collect();
        shard_of.push(if grown.len() == 1 { Some(grown[0]) } else { None });
    }
    if settle(true, false).is_err() {
        report.inconclusive.push("wb_poison: initial fill did not drain".into());
        return;
    }
    // a key on shard 0 (its background pass is the one that will keep failing)
    let mut poison: Option<Vec<u8>> = None;
    for i in 0..200 {
        let k = format!("poison-{i}").into_bytes();
        let before = store.verif_pending().unwrap().shard_counts.clone();
        let _ = store.insert(&k, b"small-for-now-small-for-now");
        let after = store.verif_pending().unwrap().shard_counts.clone();
        let grown: Vec<usize> = (0..shards).filter(|s| after[*s] > before[*s]).collect();
        let _ = settle(true, false);
        if grown == vec![0] {
            poison = Some(k);
            break;
        }
    }
    let Some(poison) = poison else {
        report.inconclusive.push("wb_poison: found no key on shard 0".into());
        return;
    };
    mon.set_plan(FaultPlan { data_min_len: Some((8192, Fault::Before)), uring: store.verif_uses_uring(), ..Default::default() });
    let _ = store.insert(&poison, &values::make(Tag { key_id: kid(&poison), writer: 1, seq: 1 }, 9000));
    // meanwhile: deletes and overwrites of durable keys everywhere
    let mut deleted: Vec<Vec<u8>> = Vec::new();
    for (i, k) in keys.iter().enumerate() {
        match i % 3 {
            0 => {
                if store.delete(k).is_ok() && matches!(shard_of[i], Some(sh) if sh != 0) {
                    deleted.push(k.clone());
                }
            }
            1 => {
                let _ = store.insert(k, &values::make(Tag { key_id: kid(k), writer: 2, seq: i as u32 }, 150));
            }
            _ => {}
        }
        if i % 64 == 63 {
            std::thread::sleep(Duration::from_millis(rng.range(0, 30)));
        }
    }
    report.evaluations += 1;
    report.count("poisoned_key_runs", 1);
    report.nontrivial.insert(fnv_mix(fnv_mix(0x9015, shards as u64), rid));
    // keys that share the failing key's shard are held back with it (a batch fails as a whole) - that is the
    // device's doing, not the store's. The deletes on the OTHER shards must reach the device in the background:
    // their records must disappear from the durable image
    report.count("poisoned_key_judged_deletes", deleted.len() as u64);
    let t0 = Instant::now();
    let mut worst_oversleep = 0u128;
    let mut verdict: Option<Vec<String>> = None;
    loop {
        let events = mon.events();
        let durable = crashimg::build(&base, &events, &Recipe { cut: events.len(), keep: vec![], tear: None });
        match indep::scan(&durable, None, false) {
            Ok(sc) => {
                let back: Vec<String> = deleted.iter().filter(|k| sc.records.contains_key(*k)).take(4).map(|k| hex(k)).collect();
                if back.is_empty() {
                    break;
                }
                if t0.elapsed() > Duration::from_secs(12) {
                    verdict = Some(back);
                    break;
                }
            }
            Err(_) => {} // a batch in flight; look again
        }
        let s0 = Instant::now();
        std::thread::sleep(Duration::from_millis(250));
        worst_oversleep = worst_oversleep.max(s0.elapsed().as_millis().saturating_sub(250));
        if t0.elapsed() > Duration::from_secs(30) {
            report.inconclusive.push(format!("wb_poison run {rid}: the durable image could not be judged within 30 s"));
            break;
        }
    }
    report.count("poisoned_key_faults_consumed", mon.consumed().len() as u64);
    report.max("poisoned_key_max_settle_ms", t0.elapsed().as_millis() as u64);
    if let Some(back) = verdict {
        if worst_oversleep > 400 {
            report.inconclusive.push(format!("wb_poison run {rid}: unresponsive machine"));
        } else {
            let p = store.verif_pending().unwrap();
            report.violation("wb:retirements-starved-by-a-failing-key", format!("one key on shard 0 cannot be written (I/O error on its payload only, every other write works); deletes of durable keys known to live on OTHER shards were accepted 12 s ago, nobody called flush, and their records {back:?} are still valid in the durable image (queued per shard {:?}, retirements {})", p.shard_queued, p.retirements), replay.clone());
        }
    }
    let _ = settle;
    mon.clear_plan();
    let _ = store.flush();
    hub().unwatch(&mon);
    drop(store);
    let _ = std::fs::remove_file(&path);
}

pub fn run_wb(args: &Args, report: &mut Report) {
    let shard = args.num("shard", 0);
    let shards = args.num("shards", 1).max(1);
    let runs = args.num("runs", if args.thorough() { 96 } else { 32 });
    let scratch = storeutil::Scratch(storeutil::scratch_dir(&format!("wb{shard}")));
    for r in 0..runs {
        if r % shards != shard {
            continue;
        }
        wb_run(report, args.seed, r, &scratch.0);
        if r % 2 == 0 {
            wb_direct(report, args.seed, r / 2, &scratch.0);
        }
        if r % 4 == 1 {
            wb_poison(report, args.seed, r / 4, &scratch.0);
        }
        if report.violations.len() >= 3 {
            break;
        }
    }
}

// ------------------------------------------------------------------ C18

/// One contention scenario; runs in a child process and prints a JSON summary.
pub fn child(args: &Args) -> ! {
    let scenario = args.num("scenario", 0);
    let rid = args.num("run", 0);
    let dir = args.get("dir").unwrap().to_string();
    let mut rng = Rng::derive(args.seed, rid, scenario);
    let path = format!("{dir}/live-{scenario}-{rid}.feox");
    let _ = std::fs::remove_file(&path);
    let started = Instant::now();
    let calls = std::cell::Cell::new(0u64);
    let max_call_us = std::cell::Cell::new(0u64);
    let mut notes: Vec<String> = Vec::new();
    let timed = |f: &mut dyn FnMut()| {
        let t = Instant::now();
        f();
        let us = t.elapsed().as_micros() as u64;
        calls.set(calls.get() + 1);
        max_call_us.set(max_call_us.get().max(us));
    };
    let cpus = *rng.pick(&[2usize, 4, 16]);
    let _ = hub(); // install the monitor: the retry-round bound below is reported through a hook
    // every scenario: a call that burns 20 s of its own thread's CPU time without returning, or a flush()
    // still going round its retry loop after 30000 rounds, is a livelock - reported as this run's result
    {
        let (dir, scenario_id, rid) = (dir.clone(), scenario, rid);
        crate::callwatch::supervise(
            20.0,
            Arc::new(move |call: String, burnt: f64| {
                let msg = if burnt > 0.0 {
                    format!("VIOLATION {call} has burnt {burnt:.0} s of its own thread's CPU time without returning (a retry loop that cannot make progress)")
                } else {
                    format!("VIOLATION {call}: the call does not terminate although the device answers and no reader is held")
                };
                let out = json!({"scenario": scenario_id, "run": rid, "calls": 0, "max_call_us": 0, "wall_s": 0.0, "notes": [msg], "cpus": 0});
                std::fs::write(format!("{dir}/live-{scenario_id}-{rid}.json"), out.to_string()).unwrap();
                std::process::exit(0);
            }),
        );
    }
    match scenario {
        // concurrent flush() callers + writers + readers on the same keys, with parks inside the flusher
        0 => {
            let mut cfg = Cfg::disk(16 + 2048);
            cfg.cpus = cpus;
            storeutil::ensure_device(&cfg, &path);
            let store = Arc::new(storeutil::open(&cfg, Some(&path)).expect("open"));
            let point = *rng.pick(&["flush.before_journal", "flush.before_data", "flush.before_clear", "flush.before_publish", "retire.before_markers", "retire.before_release", "force_flush.loop", "read.pinned.unlocked"]);
            hub().set_sched(Some(Arc::new(SchedCtl::new(args.seed, 30, 300).target(point, 400, 3000))));
            let stop = Arc::new(AtomicBool::new(false));
            let mut hs = Vec::new();
            let nflush = 2 + rng.usize_below(7);
            for f in 0..nflush {
                let (s, stop) = (store.clone(), stop.clone());
                hs.push(std::thread::spawn(move || {
                    let mut n = 0u64;
                    let mut worst = 0u64;
                    while !stop.load(Ordering::Relaxed) {
                        let t = Instant::now();
                        let _ = s.flush();
                        worst = worst.max(t.elapsed().as_micros() as u64);
                        n += 1;
                        if f % 2 == 0 {
                            std::thread::yield_now();
                        }
                    }
                    (n, worst)
                }));
            }
            for w in 0..4 {
                let (s, stop) = (store.clone(), stop.clone());
                let mut rng = Rng::derive(args.seed, rid, 50 + w);
                hs.push(std::thread::spawn(move || {
                    let mut n = 0u64;
                    let mut worst = 0u64;
                    while !stop.load(Ordering::Relaxed) {
                        let k = format!("hot-{}", rng.below(6)).into_bytes();
                        let t = Instant::now();
                        match rng.below(4) {
                            0 => {
                                let _ = s.delete(&k);
                            }
                            1 => {
                                let _ = s.get(&k);
                            }
                            2 => {
                                let _ = s.range_query(b"hot-", b"hot-9", 10);
                            }
                            _ => {
                                let _ = s.insert(&k, &values::make(Tag { key_id: kid(&k), writer: w as u16, seq: n as u32 }, rng.range(30, 9000) as usize));
                            }
                        }
                        worst = worst.max(t.elapsed().as_micros() as u64);
                        n += 1;
                    }
                    (n, worst)
                }));
            }
            std::thread::sleep(Duration::from_millis(rng.range(300, 900)));
            stop.store(true, Ordering::Relaxed);
            for h in hs {
                let (n, worst) = h.join().expect("thread");
                calls.set(calls.get() + n);
                max_call_us.set(max_call_us.get().max(worst));
            }
            hub().set_sched(None);
            timed(&mut || {
                let _ = store.flush();
            });
            let p = store.verif_pending().unwrap();
            if p.shard_queued.iter().sum::<usize>() != 0 || p.retirements != 0 {
                notes.push(format!("VIOLATION pending work after a successful quiescent flush: {:?} / {}", p.shard_queued, p.retirements));
            }
            let mut last = Arc::try_unwrap(store).ok();
            timed(&mut || drop(last.take()));
        }
        // flush racing drop-on-last-Arc where the TTL sweeper thread may hold the last Arc
        1 => {
            let mut cfg = Cfg::disk(16 + 1024);
            cfg.cpus = cpus;
            cfg.ttl = true;
            storeutil::ensure_device(&cfg, &path);
            for round in 0..6 {
                let store = Arc::new(feoxdb::FeoxStore::builder().device_path(path.clone()).file_size(cfg.blocks * 4096).hash_bits(6).enable_ttl(true).build().expect("open"));
                store.start_ttl_sweeper(Some(feoxdb::core::ttl_sweep::TtlConfig {
                    sample_size: 50,
                    expiry_threshold: 0.1,
                    max_iterations: 16,
                    max_time_per_run: Duration::from_millis(5),
                    sleep_interval: Duration::from_millis(1),
                    enabled: true,
                }));
                for i in 0..200 {
                    let k = format!("t-{round}-{i}").into_bytes();
                    let _ = store.insert_with_ttl(&k, b"some-value-some-value-some-value", 1);
                }
                let s2 = store.clone();
                let flusher = std::thread::spawn(move || {
                    for _ in 0..20 {
                        let _ = s2.flush();
                    }
                });
                feoxdb::verif::advance_clock_ns(2_000_000_000); // everything expires: the sweeper gets busy
                std::thread::sleep(Duration::from_millis(rng.range(0, 30)));
                timed(&mut || drop(store.clone()));
                drop(store); // the flusher thread or the sweeper now holds the last reference
                flusher.join().expect("flusher");
                calls.set(calls.get() + 20);
            }
        }
        // tiny full device: writes exceed capacity, deletes free space while flushers retry
        2 => {
            let mut cfg = Cfg::disk(16 + 24);
            cfg.cpus = cpus;
            storeutil::ensure_device(&cfg, &path);
            let store = Arc::new(storeutil::open(&cfg, Some(&path)).expect("open"));
            let mut results = BTreeMap::new();
            for i in 0..40 {
                let k = format!("full-{i}").into_bytes();
                let _ = store.insert(&k, &values::make(Tag { key_id: kid(&k), writer: 0, seq: i }, 9000));
                if i % 5 == 4 {
                    let s = store.clone();
                    let mut r = String::new();
                    timed(&mut || r = format!("{:?}", s.flush().map_err(|e| storeutil::err_name(&e))));
                    *results.entry(r).or_insert(0u64) += 1;
                }
            }
            for i in 0..40 {
                let k = format!("full-{i}").into_bytes();
                timed(&mut || {
                    let _ = store.delete(&k);
                });
                if i % 7 == 0 {
                    timed(&mut || {
                        let _ = store.flush();
                    });
                }
            }
            let mut r = String::new();
            timed(&mut || r = format!("{:?}", store.flush().map_err(|e| storeutil::err_name(&e))));
            notes.push(format!("flush results while full: {results:?}; after deleting everything: {r}"));
            if r != "Ok(())" {
                notes.push("VIOLATION flush does not succeed after everything was deleted from a full device".into());
            }
            let mut last = Arc::try_unwrap(store).ok();
            timed(&mut || drop(last.take()));
        }
        // record data writes fail (everything else healthy) while retirements of durable generations
        // keep running on other workers: the failed-batch scrub and the retirement path take the
        // device guard and the free-space guard concurrently
        4 => {
            let mut cfg = Cfg::disk(16 + 512);
            cfg.cpus = *rng.pick(&[4usize, 8, 16]);
            cfg.sync_io = rng.chance(1, 2);
            let uring = !cfg.sync_io;
            storeutil::ensure_device(&cfg, &path);
            let mon = hub().watch(&path);
            mon.set_recording(false);
            let store = Arc::new(storeutil::open(&cfg, Some(&path)).expect("open"));
            for i in 0..60 {
                let k = format!("d-{i}").into_bytes();
                let _ = store.insert(&k, &values::make(Tag { key_id: kid(&k), writer: 0, seq: i }, 300));
            }
            let _ = store.flush();
            hub().set_sched(Some(Arc::new(SchedCtl::new(args.seed ^ rid, 20, 200).target("retire.before_markers", 300, 2000).target("retire.before_release", 300, 1000).target("flush.before_data", 300, 2000).target("flush.before_journal", 200, 1000))));
            // multi-block record writes fail, single-block ones succeed: threads 0-1 keep rewriting keys with
            // big values (their batches fail and are scrubbed), threads 2-3 create small keys, let them
            // become durable and delete them (a steady supply of retirements with markers to write)
            mon.set_plan(FaultPlan { data_min_len: Some((8192, Fault::Before)), uring, ..Default::default() });
            let start = 0u32;
            let stop = Arc::new(AtomicBool::new(false));
            let mut hs = Vec::new();
            for w in 0..4u64 {
                let (s, stop) = (store.clone(), stop.clone());
                let mut rng = Rng::derive(args.seed, rid, 70 + w);
                hs.push(std::thread::spawn(move || {
                    let mut n = 0u64;
                    let mut worst = 0u64;
                    while !stop.load(Ordering::Relaxed) {
                        let t = Instant::now();
                        if w < 2 {
                            let k = format!("d-{}", rng.below(8)).into_bytes();
                            let _ = s.insert(&k, &values::make(Tag { key_id: kid(&k), writer: w as u16, seq: n as u32 }, rng.range(5000, 9000) as usize));
                            if rng.chance(1, 3) {
                                let _ = s.flush();
                            }
                        } else {
                            let k = format!("small-{w}-{}", n % 40).into_bytes();
                            match n % 3 {
                                0 => {
                                    let _ = s.insert(&k, &values::make(Tag { key_id: kid(&k), writer: w as u16, seq: n as u32 }, 200));
                                }
                                1 => std::thread::sleep(Duration::from_millis(2)),
                                _ => {
                                    let k = format!("small-{w}-{}", (n + 20) % 40).into_bytes();
                                    let _ = s.delete(&k);
                                }
                            }
                        }
                        worst = worst.max(t.elapsed().as_micros() as u64);
                        n += 1;
                    }
                    (n, worst)
                }));
            }
            std::thread::sleep(Duration::from_millis(rng.range(600, 1200)));
            stop.store(true, Ordering::Relaxed);
            for h in hs {
                let (n, worst) = h.join().expect("thread");
                calls.set(calls.get() + n);
                max_call_us.set(max_call_us.get().max(worst));
            }
            notes.push(format!("data writes failing from the {start}-th on ({}); faults consumed {}", if uring { "io_uring" } else { "sync I/O" }, mon.consumed().len()));
            mon.clear_plan();
            hub().set_sched(None);
            let mut r = String::new();
            timed(&mut || r = format!("{:?}", store.flush().map_err(|e| storeutil::err_name(&e))));
            notes.push(format!("flush after the device healed: {r}"));
            let mut last = Arc::try_unwrap(store).ok();
            timed(&mut || drop(last.take()));
        }
        // mid-call disturbances: while a thread sits between the critical sections of a read-modify-write
        // call on its *private* key (nobody else will ever touch it again), the key is replaced by a
        // generation with a 1 s TTL and the clock jumps past that expiry / the key is deleted / replaced /
        // just expires. Whatever happened, the call has to come back: a retry loop that never ends burns
        // CPU inside one call, which the per-call CPU budget turns into a verdict.
        5 => {
            let persistent = rid % 2 == 1;
            let mut cfg = if persistent { Cfg::disk(16 + 2048) } else { Cfg::memory() };
            cfg.cpus = cpus;
            cfg.ttl = true;
            if persistent {
                storeutil::ensure_device(&cfg, &path);
            }
            let store = Arc::new(storeutil::open(&cfg, if persistent { Some(&path) } else { None }).expect("open"));
            thread_local! {
                static CUR_KEY: std::cell::RefCell<Option<Vec<u8>>> = const { std::cell::RefCell::new(None) };
                static DISTURB_RNG: std::cell::RefCell<Option<Rng>> = const { std::cell::RefCell::new(None) };
            }
            let disturbances = Arc::new([const { std::sync::atomic::AtomicU64::new(0) }; 4]);
            let livelock: Arc<parking_lot::Mutex<Option<String>>> = Arc::new(parking_lot::Mutex::new(None));
            {
                let (s, d, seed) = (store.clone(), disturbances.clone(), args.seed ^ rid);
                hub().set_action(Some(Arc::new(move |point: &'static str| {
                    if !matches!(point, "incr.before_swap" | "cas.before_swap" | "patch.before_swap" | "update.before_entry" | "insert.after_read" | "ttl.before_update") {
                        return;
                    }
                    let Some(key) = CUR_KEY.with(|k| k.borrow().clone()) else { return };
                    let pick = DISTURB_RNG.with(|r| {
                        let mut r = r.borrow_mut();
                        let rng = r.get_or_insert_with(|| Rng::derive(seed, fnv(format!("{:?}", std::thread::current().id()).as_bytes()), 5));
                        rng.below(12)
                    });
                    match pick {
                        0 | 1 => {
                            // replaced by a generation that is already expired when the caller looks again
                            let _ = s.insert_with_ttl(&key, &7u64.to_le_bytes(), 1);
                            feoxdb::verif::advance_clock_ns(2_000_000_000);
                            d[0].fetch_add(1, Ordering::Relaxed);
                        }
                        2 => {
                            // whatever generation is there expires under the caller's feet
                            feoxdb::verif::advance_clock_ns(3_000_000_000);
                            d[1].fetch_add(1, Ordering::Relaxed);
                        }
                        3 => {
                            let _ = s.delete(&key);
                            d[2].fetch_add(1, Ordering::Relaxed);
                        }
                        4 => {
                            let _ = s.insert(&key, br#"{"n":1,"l":[1]}"#);
                            d[3].fetch_add(1, Ordering::Relaxed);
                        }
                        _ => {}
                    }
                })));
            }
            let _ = &livelock;
            let mut hs = Vec::new();
            for w in 0..6u64 {
                let s = store.clone();
                let mut rng = Rng::derive(args.seed, rid, 500 + w);
                hs.push(std::thread::spawn(move || {
                    let mut n = 0u64;
                    let mut worst = 0u64;
                    let mut outcomes: BTreeMap<String, u64> = BTreeMap::new();
                    for i in 0..400u64 {
                        let k = format!("own-{w}-{}", i % 3).into_bytes();
                        // the key usually exists, sometimes with a TTL that is about to run out
                        match rng.below(4) {
                            0 => {
                                let _ = s.insert_with_ttl(&k, &5u64.to_le_bytes(), 1);
                            }
                            1 => {
                                let _ = s.insert(&k, &9u64.to_le_bytes());
                            }
                            _ => {}
                        }
                        CUR_KEY.with(|c| *c.borrow_mut() = Some(k.clone()));
                        let t = Instant::now();
                        let (name, r) = match rng.below(7) {
                            0 => ("atomic_increment", crate::callwatch::watched("atomic_increment", || s.atomic_increment(&k, 1).map(|_| ()))),
                            1 => ("atomic_increment_ttl", crate::callwatch::watched("atomic_increment_with_timestamp_and_ttl", || s.atomic_increment_with_timestamp_and_ttl(&k, 1, None, 1).map(|_| ()))),
                            2 => ("compare_and_swap", crate::callwatch::watched("compare_and_swap", || s.compare_and_swap(&k, &9u64.to_le_bytes(), &5u64.to_le_bytes()).map(|_| ()))),
                            3 => ("json_patch", crate::callwatch::watched("json_patch", || s.json_patch(&k, br#"[{"op":"add","path":"/l/-","value":2}]"#))),
                            4 => ("insert_if_absent", crate::callwatch::watched("insert_if_absent", || s.insert_if_absent(&k, &3u64.to_le_bytes()).map(|_| ()))),
                            5 => ("update_ttl", crate::callwatch::watched("update_ttl", || s.update_ttl(&k, 1))),
                            _ => ("insert", crate::callwatch::watched("insert", || s.insert(&k, &4u64.to_le_bytes()).map(|_| ()))),
                        };
                        CUR_KEY.with(|c| *c.borrow_mut() = None);
                        worst = worst.max(t.elapsed().as_micros() as u64);
                        *outcomes.entry(format!("{name}:{}", r.as_ref().map(|_| "ok".to_string()).unwrap_or_else(storeutil::err_name))).or_insert(0) += 1;
                        n += 1;
                    }
                    (n, worst, outcomes)
                }));
            }
            let mut all: BTreeMap<String, u64> = BTreeMap::new();
            for h in hs {
                let (n, worst, outcomes) = h.join().expect("thread");
                calls.set(calls.get() + n);
                max_call_us.set(max_call_us.get().max(worst));
                for (k, v) in outcomes {
                    *all.entry(k).or_insert(0) += v;
                }
            }
            hub().set_action(None);
            let d: Vec<u64> = disturbances.iter().map(|x| x.load(Ordering::Relaxed)).collect();
            notes.push(format!("mid-call disturbances: ttl-replace+expire {}, expire {}, delete {}, replace {}; outcomes {:?}", d[0], d[1], d[2], d[3], all));
            if d.iter().sum::<u64>() == 0 {
                notes.push("INCONCLUSIVE no mid-call disturbance was delivered".into());
            }
            timed(&mut || {
                let _ = store.flush();
            });
            let mut last = Arc::try_unwrap(store).ok();
            timed(&mut || drop(last.take()));
        }
        // failing device: persistent failure from some I/O call on, then drop (final flush retry limit)
        _ => {
            let mut cfg = Cfg::disk(16 + 256);
            cfg.cpus = cpus;
            // half of the runs write record batches through io_uring: a failed submission queue entry comes back
            // as a failed COMPLETION that the batch writer has to reap and count like any other
            cfg.sync_io = rng.chance(1, 2);
            let uring = !cfg.sync_io;
            storeutil::ensure_device(&cfg, &path);
            let mon = hub().watch(&path);
            let store = Arc::new(storeutil::open(&cfg, Some(&path)).expect("open"));
            for i in 0..30 {
                let k = format!("f-{i}").into_bytes();
                let _ = store.insert(&k, &values::make(Tag { key_id: kid(&k), writer: 0, seq: i }, 300));
            }
            let _ = store.flush();
            let from = mon.calls() + rng.below(12) as u32;
            let mode = if rng.chance(1, 2) { Fault::Before } else { Fault::After };
            // io_uring runs: in half of them it is io_uring_enter itself that keeps failing from some call on - with a
            // "try again" errno (EAGAIN / EBUSY) or with EIO - while the writes themselves would work
            let enter_from = (uring && rng.chance(1, 2)).then(|| (mon.enter_stats().0 + rng.below(4) as u32, *rng.pick(&[11i32, 16, 5])));
            if let Some(ef) = enter_from {
                mon.set_plan(FaultPlan { enter_from: Some(ef), uring, ..Default::default() });
            } else {
                mon.set_plan(FaultPlan { from: Some((from, mode)), uring, ..Default::default() });
            }
            let mut hs = Vec::new();
            for w in 0..3 {
                let s = store.clone();
                hs.push(std::thread::spawn(move || {
                    let mut worst = 0u64;
                    for i in 0..60u32 {
                        let k = format!("f-{}", (i + w) % 30).into_bytes();
                        let t = Instant::now();
                        if i % 4 == 0 {
                            let _ = s.flush();
                        } else if i % 7 == 0 {
                            let _ = s.delete(&k);
                        } else {
                            let _ = s.insert(&k, &values::make(Tag { key_id: kid(&k), writer: w as u16, seq: i }, 500));
                        }
                        worst = worst.max(t.elapsed().as_micros() as u64);
                    }
                    worst
                }));
            }
            for h in hs {
                max_call_us.set(max_call_us.get().max(h.join().expect("thread")));
                calls.set(calls.get() + 60);
            }
            notes.push(format!("persistent {mode:?} failure from I/O call {from} ({}{}); consumed {}", if uring { "io_uring" } else { "sync I/O" }, enter_from.map(|(n, e)| format!(", io_uring_enter failing with errno {e} from its call {n} on")).unwrap_or_default(), mon.consumed().len()));
            // drop with the device still failing
            let mut last = Arc::try_unwrap(store).ok();
            timed(&mut || drop(last.take()));
        }
    }
    let out = json!({"scenario": scenario, "run": rid, "calls": calls.get(), "max_call_us": max_call_us.get(), "wall_s": started.elapsed().as_secs_f64(), "notes": notes, "cpus": cpus});
    std::fs::write(format!("{dir}/live-{scenario}-{rid}.json"), out.to_string()).unwrap();
    let _ = std::fs::remove_file(&path);
    std::process::exit(0);
}

pub(crate) fn thread_cpu(pid: u32) -> BTreeMap<String, (String, u64)> {
    let mut out = BTreeMap::new();
    if let Ok(rd) = std::fs::read_dir(format!("/proc/{pid}/task")) {
        for e in rd.flatten() {
            let tid = e.file_name().to_string_lossy().to_string();
            if let Ok(stat) = std::fs::read_to_string(format!("/proc/{pid}/task/{tid}/stat")) {
                if let Some(rest) = stat.rsplit(')').next() {
                    let f: Vec<&str> = rest.split_whitespace().collect();
                    if f.len() > 13 {
                        let cpu = f[11].parse::<u64>().unwrap_or(0) + f[12].parse::<u64>().unwrap_or(0);
                        out.insert(tid, (f[0].to_string(), cpu));
                    }
                }
            }
        }
    }
    out
}

pub fn run_live(args: &Args, report: &mut Report) {
    let shard = args.num("shard", 0);
    let shards = args.num("shards", 1).max(1);
    let runs = args.num("runs", if args.thorough() { 400 } else { 48 });
    let exe = std::env::current_exe().unwrap().to_string_lossy().to_string();
    let scratch = storeutil::Scratch(storeutil::scratch_dir(&format!("live{shard}")));
    let dir = scratch.0.clone();
    let jobs: Vec<u64> = (0..runs).filter(|r| r % shards == shard).collect();
    let queue = Arc::new(parking_lot::Mutex::new(jobs));
    let merged = Arc::new(parking_lot::Mutex::new(Report::new("live", "")));
    let mut handles = Vec::new();
    for _ in 0..args.num("threads", 6) {
        let (queue, merged, exe, dir) = (queue.clone(), merged.clone(), exe.clone(), dir.clone());
        let seed = args.seed;
        handles.push(std::thread::spawn(move || {
            let mut local = Report::new("live", "");
            loop {
                let Some(rid) = queue.lock().pop() else { break };
                let scenario = rid % 6;
                let replay = json!({"engine": "live", "mode": "live", "seed": seed, "scenario": scenario, "run": rid});
                let mut child = match std::process::Command::new(&exe)
                    .arg("live-child")
                    .args(["--scenario", &scenario.to_string(), "--run", &rid.to_string(), "--dir", &dir, "--seed", &seed.to_string()])
                    .stdout(std::process::Stdio::null())
                    .stderr(std::process::Stdio::piped())
                    .spawn()
                {
                    Ok(c) => c,
                    Err(e) => {
                        local.inconclusive.push(format!("spawn failed: {e}"));
                        continue;
                    }
                };
                let t0 = Instant::now();
                let mut verdict: Option<(String, String)> = None;
                loop {
                    match child.try_wait() {
                        Ok(Some(st)) => {
                            if !st.success() {
                                let mut err = String::new();
                                if let Some(mut e) = child.stderr.take() {
                                    use std::io::Read;
                                    let _ = e.read_to_string(&mut err);
                                }
                                verdict = Some(("live:child-crashed".into(), format!("scenario {scenario} run {rid}: child exited with {st}: {}", err.chars().rev().take(500).collect::<String>().chars().rev().collect::<String>())));
                            }
                            break;
                        }
                        Ok(None) => {
                            if t0.elapsed() > Duration::from_secs(90) {
                                // watchdog fired: stalled or just slow?
                                let a = thread_cpu(child.id());
                                std::thread::sleep(Duration::from_secs(2));
                                let b = thread_cpu(child.id());
                                let progressed = b.iter().filter(|(t, (_, c))| a.get(*t).map(|(_, c0)| c0 != c).unwrap_or(true)).count();
                                let runnable = b.values().filter(|(s, _)| s == "R").count();
                                // a background thread that spins: over a further 20 s ONE thread burns at least 17 s of CPU
                                // time (measured in CPU time, so machine load cannot fake it) while every other thread of
                                // the child stays idle - the scenario hangs on a loop that makes no progress
                                let mut spinner: Option<(String, u64)> = None;
                                if progressed > 0 {
                                    let c0 = thread_cpu(child.id());
                                    std::thread::sleep(Duration::from_secs(20));
                                    let c1 = thread_cpu(child.id());
                                    let tick = 100u64; // USER_HZ
                                    let deltas: Vec<(String, u64)> = c1.iter().map(|(t, (_, c))| (t.clone(), c.saturating_sub(c0.get(t).map(|x| x.1).unwrap_or(*c)))).collect();
                                    let busy: Vec<&(String, u64)> = deltas.iter().filter(|(_, d)| *d >= 17 * tick).collect();
                                    let others: u64 = deltas.iter().filter(|(_, d)| *d < 17 * tick).map(|(_, d)| *d).sum();
                                    if busy.len() == 1 && others <= tick && matches!(child.try_wait(), Ok(None)) {
                                        spinner = Some(busy[0].clone());
                                    }
                                }
                                let bt = std::process::Command::new("gdb").args(["-p", &child.id().to_string(), "-batch", "-ex", "thread apply all bt 10"]).output().map(|o| String::from_utf8_lossy(&o.stdout).chars().rev().take(6000).collect::<String>().chars().rev().collect::<String>()).unwrap_or_default();
                                let _ = child.kill();
                                let _ = child.wait();
                                if let Some((tid, d)) = spinner {
                                    verdict = Some(("live:spin".into(), format!("scenario {scenario} run {rid}: not finished after 110 s; thread {tid} burnt {:.1} s of CPU time in the last 20 s while all other threads of the process stayed idle - a loop that never makes progress (calls, flush or close cannot return). Backtrace tail:\n{}", d as f64 / 100.0, bt)));
                                } else if progressed == 0 && runnable == 0 {
                                    verdict = Some(("live:stall".into(), format!("scenario {scenario} run {rid}: not finished after 90 s and no thread consumed CPU for 2 s ({} threads, none runnable) — deadlock / lost wake-up. Backtrace tail:\n{}", b.len(), bt)));
                                } else {
                                    local.inconclusive.push(format!("scenario {scenario} run {rid}: watchdog expired but {progressed} threads were still consuming CPU (slow, not stalled)"));
                                }
                                break;
                            }
                            std::thread::sleep(Duration::from_millis(10));
                        }
                        Err(e) => {
                            local.inconclusive.push(format!("wait failed: {e}"));
                            break;
                        }
                    }
                }
                local.evaluations += 1;
                if let Some((sig, msg)) = verdict {
                    local.violation(sig, msg, replay.clone());
                    continue;
                }
                if let Ok(text) = std::fs::read_to_string(format!("{dir}/live-{scenario}-{rid}.json")) {
                    if let Ok(v) = serde_json::from_str::<Value>(&text) {
                        local.count("calls_completed", v["calls"].as_u64().unwrap_or(0));
                        local.max("max_call_latency_us", v["max_call_us"].as_u64().unwrap_or(0));
                        local.count(&format!("scenario_{scenario}_runs"), 1);
                        local.nontrivial.insert(fnv_mix(scenario, rid));
                        for n in v["notes"].as_array().cloned().unwrap_or_default() {
                            let n = n.as_str().unwrap_or("").to_string();
                            if n.starts_with("VIOLATION") {
                                local.violation(format!("live:scenario{scenario}"), n, replay.clone());
                            } else if local.samples.len() < 3 {
                                local.sample(json!({"scenario": scenario, "run": rid, "note": n, "calls": v["calls"], "max_call_us": v["max_call_us"], "wall_s": v["wall_s"]}));
                            }
                        }
                    }
                }
            }
            merged.lock().merge(local);
        }));
    }
    for h in handles {
        if h.join().is_err() {
            report.inconclusive.push("HARNESS-PANIC: a live worker thread panicked (its results are lost)".into());
        }
    }
    let m = Arc::try_unwrap(merged).ok().unwrap().into_inner();
    report.merge(m);
}

pub fn run(args: &Args) -> Report {
    let mode = args.get("mode").unwrap_or("live");
    let mut report = Report::new(
        "live",
        if mode == "wb" {
            "write-behind without any explicit flush on stores built with 1..8 shards/workers (CPU visibility 2..16), seven patterns (small burst touching every shard; buffer-filling burst >=1024 entries per shard; overwrite/delete of already durable keys; idle vs busy neighbouring keys; TTL keys removed by the sweeper only; retirements deferred by readers parked inside reads of the old generations, then nobody writes; one write and one delete after more than 3 s of complete idleness, judged against 2.5 s on a machine a probe thread shows to be responsive): after the last call returns the engine only polls the pending-work accessor and the device trace; pending work must reach zero, every accepted write must have an extent, the durable prefix of the trace must recover to exactly the accepted state, superseded generations must be retired (independent decode) and the data area must be exactly partitioned. A stall needs 10 s without drain AND 5 s without device activity. distinct = (shard count, pattern, trace size class)"
        } else {
            "contention scenarios, each in its own process under a 90 s watchdog whose expiry is judged by a stall signature (no thread consumed CPU for 2 s and none runnable): (0) 2-8 concurrent flush() callers + writers/deleters/readers/scanners on 6 hot keys with 3 ms delays injected at one flusher phase per run; (1) flush racing drop where the flusher thread or the 1 ms TTL sweeper holds the last reference; (2) a 24-block device filled beyond capacity, flushes while full, then deletes + flush must succeed; (3) persistent I/O failure from a seeded call on (synchronous path or io_uring completions, in turn), 3 threads keep writing/deleting/flushing, then drop with the device still failing; (4) only record-data writes fail (synchronous path or io_uring completions, in turn) while 4 threads update/delete/flush durable keys on 2-8 workers with delays at the journal/data/marker/release points (failed-batch scrub racing retirements), then the device heals; (5) mid-call disturbances: at the scheduling points inside increment / compare-and-swap / JSON patch / insert-if-absent / update_ttl / insert on a key private to the calling thread, the key is replaced by a 1 s TTL generation and the clock jumps past its expiry, or it just expires, or is deleted or replaced - the call must return (a call that burns 20 s of its own thread's CPU time without returning is a livelock). distinct = (scenario, run)"
        },
    );
    if mode == "wb" {
        run_wb(args, &mut report);
    } else {
        run_live(args, &mut report);
    }
    report
}
