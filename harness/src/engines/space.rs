//! E-space (C05): every data block has exactly one owner or is free; freed space is reusable.
//! Long mixed-extent workloads on small, nearly full devices with the partition
//! invariant + independent decode at every quiescent point, isolation of other
//! keys' bytes, reopen, and a drain epilogue that replays the initial fill.

use crate::args::Args;
use crate::engines::layout;
use crate::indep;
use crate::model::{Gen, MCfg, Model};
use crate::mon::{hub, SchedCtl};
use crate::report::{hex, Report};
use crate::rng::{fnv, fnv_mix, Rng};
use crate::storeutil::{self, err_name, Cfg};
use crate::values::{self, Tag};
use serde_json::json;
use std::collections::BTreeMap;
use std::sync::atomic::{AtomicBool, Ordering};
use std::sync::Arc;

fn kid(k: &[u8]) -> u32 {
    (fnv(k) & 0xffff_ffff) as u32
}

struct Run<'a> {
    store: Option<Arc<feoxdb::FeoxStore>>,
    cfg: Cfg,
    path: String,
    model: BTreeMap<Vec<u8>, Vec<u8>>,
    seq: u32,
    report: &'a mut Report,
    log: Vec<String>,
    pause: Arc<AtomicBool>,
}

impl Run<'_> {
    fn store(&self) -> &feoxdb::FeoxStore {
        self.store.as_ref().unwrap()
    }

    fn blocks_of(&self, k: &[u8], vlen: usize) -> u64 {
        indep::record_blocks(self.cfg.version, k.len(), vlen)
    }

    fn live_blocks(&self) -> u64 {
        self.model.iter().map(|(k, v)| self.blocks_of(k, v.len())).sum()
    }

    fn put(&mut self, k: &[u8], len: usize) -> Result<(), String> {
        self.seq += 1;
        let v = values::make(Tag { key_id: kid(k), writer: 0, seq: self.seq }, len);
        self.log.push(format!("insert({}, len {})", hex(k), v.len()));
        self.store().insert(k, &v).map_err(|e| format!("insert failed: {e:?}"))?;
        self.model.insert(k.to_vec(), v);
        Ok(())
    }

    fn del(&mut self, k: &[u8]) -> Result<(), String> {
        self.log.push(format!("delete({})", hex(k)));
        self.store().delete(k).map_err(|e| format!("delete failed: {e:?}"))?;
        self.model.remove(k);
        Ok(())
    }

    /// flush; on success run every quiescent-point check
    fn flush_and_check(&mut self, what: &str) -> Result<bool, (String, String)> {
        self.log.push("flush()".into());
        self.pause.store(true, Ordering::SeqCst);
        std::thread::sleep(std::time::Duration::from_millis(2));
        let r = self.store().flush();
        let out = match r {
            Ok(()) => {
                let res = self.quiescent_checks(what);
                res.map(|_| true)
            }
            Err(feoxdb::FeoxError::OutOfSpace) => {
                self.report.count("flush_out_of_space", 1);
                Ok(false)
            }
            Err(e) => Err(("space:flush-error".into(), format!("{what}: flush failed with {}", err_name(&e)))),
        };
        self.pause.store(false, Ordering::SeqCst);
        out
    }

    fn quiescent_checks(&mut self, what: &str) -> Result<(), (String, String)> {
        let snap = self.store().verif_snapshot();
        let (live, free) = layout::check_partition(&snap, self.cfg.version, &[]).map_err(|(s, m)| (s, format!("{what}: {m}")))?;
        self.report.count("quiescent_points", 1);
        self.report.count("live_extents_inspected", snap.entries.len() as u64);
        self.report.count("free_runs_inspected", snap.free_by_start.len() as u64);
        let total = snap.device_size / 4096 - 16;
        let fill_class = live * 10 / total.max(1);
        let frag_class = snap.free_by_start.len().min(9) as u64;
        self.report.nontrivial.insert(fnv_mix(fnv_mix(total, fill_class), fnv_mix(frag_class, snap.entries.len() as u64 / 4)));
        let _ = free;
        // independent decode of the file: every live extent holds exactly that record, nothing else is live
        let image = std::fs::read(&self.path).map_err(|e| ("space:io".to_string(), e.to_string()))?;
        let mcfg = MCfg { persistent: true, ttl: false, version: self.cfg.version, max_memory: None };
        let mut m = Model::new(mcfg, 0, 0);
        for e in &snap.entries {
            if let Some(v) = self.model.get(&e.key) {
                m.keys.insert(e.key.clone(), Gen { value: v.clone(), ts: e.timestamp, expiry: e.ttl_expiry });
            }
        }
        if m.keys.len() != self.model.len() || snap.entries.len() != self.model.len() {
            return Err(("space:keyset".into(), format!("{what}: store holds {} keys, expected {}", snap.entries.len(), self.model.len())));
        }
        layout::check_image(&image, &m, &snap, self.cfg.version).map_err(|(s, msg)| (format!("space:{s}"), format!("{what}: {msg}")))?;
        self.report.count("independent_decodes", 1);
        // isolation: every key still returns exactly its own bytes
        for (k, v) in &self.model {
            match self.store().get(k) {
                Ok(got) if got == *v => {}
                Ok(got) => return Err(("space:other-key-damaged".into(), format!("{what}: get({}) returns {} instead of {}", hex(k), values::describe(&got), values::describe(v)))),
                Err(e) => return Err(("space:other-key-damaged".into(), format!("{what}: get({}) fails with {}", hex(k), err_name(&e)))),
            }
        }
        self.report.count("isolation_reads", self.model.len() as u64);
        Ok(())
    }
}

fn one_run(report: &mut Report, seed: u64, rid: u64, dir: &str, steps: usize) -> Option<(String, String, serde_json::Value)> {
    let mut rng = Rng::derive(seed, rid, 0x59ace);
    let data_blocks = *rng.pick(&[48u64, 64, 96, 160, 256]);
    let mut cfg = Cfg::disk(16 + data_blocks);
    cfg.version = *rng.pick(&[3u32, 3, 2, 1]);
    cfg.cache = rng.chance(1, 2);
    cfg.cpus = *rng.pick(&[2usize, 4, 8, 16]);
    cfg.sync_io = rng.chance(1, 4);
    cfg.ttl = cfg.version >= 2 && rng.chance(2, 3);
    let path = format!("{dir}/space-{rid}.feox");
    let _ = std::fs::remove_file(&path);
    let store = match storeutil::open(&cfg, Some(&path)) {
        Ok(s) => Arc::new(s),
        Err(e) => {
            report.inconclusive.push(format!("open failed: {e:?}"));
            return None;
        }
    };
    // a third of the runs hold both sides of the retirement hand-over for milliseconds: readers in front of the pin
    // and while pinned, the retirement pass between its reader check and its marker write
    let ctl = if rid % 3 == 2 {
        Arc::new(SchedCtl::new(seed ^ rid, 20, 200).target("retire.before_markers", 800, 4000).target("read.before_pin", 400, 5000).target("read.pinned.unlocked", 400, 6000).target("retire.before_release", 200, 600))
    } else {
        Arc::new(SchedCtl::new(seed ^ rid, 20, 200).target("retire.before_markers", 200, 600).target("retire.before_release", 200, 600).target("flush.before_publish", 150, 400).target("read.pinned.unlocked", 200, 1500))
    };
    hub().set_sched(Some(ctl.clone()));
    let pause = Arc::new(AtomicBool::new(false));
    let stop = Arc::new(AtomicBool::new(false));
    let replay = json!({"engine": "space", "seed": seed, "run": rid, "config": cfg.label(), "data_blocks": data_blocks});
    let mut run = Run { store: Some(store.clone()), cfg: cfg.clone(), path: path.clone(), model: BTreeMap::new(), seq: 0, report, log: Vec::new(), pause: pause.clone() };
    // background readers pin extents so that releases get deferred
    let mut readers = Vec::new();
    let with_readers = rid % 3 == 2 || rng.chance(1, 2);
    if with_readers {
        for r in 0..2 {
            let (s, pause, stop) = (store.clone(), pause.clone(), stop.clone());
            let mut rr = Rng::derive(seed, rid, 900 + r);
            readers.push(std::thread::spawn(move || {
                let mut n = 0u64;
                while !stop.load(Ordering::Relaxed) {
                    if pause.load(Ordering::SeqCst) {
                        std::thread::sleep(std::time::Duration::from_micros(200));
                        continue;
                    }
                    let k = format!("sp-{:03}", rr.below(40)).into_bytes();
                    let _ = s.get(&k);
                    n += 1;
                }
                n
            }));
        }
    }
    drop(store);
    let fail = |run: &Run, sig: String, msg: String| Some((sig, msg, { let mut r = replay.clone(); r["last_calls"] = json!(run.log.iter().rev().take(20).rev().collect::<Vec<_>>()); r }));
    let result = (|| -> Option<(String, String, serde_json::Value)> {
        // --- fill program on the fresh device
        // half of the runs on the largest device keep room for a scripted long-extent sequence
        let long_script = data_blocks == 256 && rid % 2 == 0;
        let target_fill = if long_script { rng.range(25, 38) } else { rng.range(60, 92) };
        let mut fill: Vec<(Vec<u8>, usize)> = Vec::new();
        let mut i = 0;
        loop {
            let k = format!("sp-{i:03}").into_bytes();
            let hl = indep::header_len(cfg.version, k.len());
            let blocks = *rng.pick(&[1usize, 1, 1, 2, 2, 3, 4, 6]);
            let len = match rng.below(3) {
                0 => blocks * 4096 - hl,
                1 => blocks * 4096 - hl - rng.range(1, 100) as usize,
                _ => ((blocks - 1) * 4096 + 1).saturating_sub(hl).max(22),
            };
            if (run.live_blocks() + run.blocks_of(&k, len)) * 100 > data_blocks * target_fill {
                break;
            }
            if let Err(e) = run.put(&k, len) {
                return fail(&run, "space:insert".into(), e);
            }
            fill.push((k, len));
            i += 1;
            if rng.chance(1, 4) {
                match run.flush_and_check("fill") {
                    Ok(true) => {}
                    Ok(false) => return fail(&run, "space:fresh-device-out-of-space".into(), format!("a fresh device with {} data blocks refused {} blocks of records", data_blocks, run.live_blocks())),
                    Err((s, m)) => return fail(&run, s, m),
                }
            }
        }
        match run.flush_and_check("end of fill") {
            Ok(true) => {}
            Ok(false) => return fail(&run, "space:fresh-device-out-of-space".into(), format!("a fresh device with {} data blocks refused {} blocks of records", data_blocks, run.live_blocks())),
            Err((s, m)) => return fail(&run, s, m),
        }
        // --- scripted long-extent sequence: a key of n blocks, a small record right behind it, then the key rewritten
        // with n-2 blocks (lands elsewhere; the n-block hole opens between occupied neighbours) and with n-1 blocks
        // (best fit: that hole, one block to spare) - a quiescent-point check after each step, twice over
        if long_script {
            for cycle in 0..2u32 {
                let n = 34 + rng.usize_below(14);
                let bk = format!("long-{cycle}").into_bytes();
                let bhl = indep::header_len(cfg.version, bk.len());
                for (step, nb) in [n, n - 2, n - 1].into_iter().enumerate() {
                    if let Err(e) = run.put(&bk, nb * 4096 - bhl - rng.range(0, 60) as usize) {
                        return fail(&run, "space:insert".into(), e);
                    }
                    match run.flush_and_check("long-extent script") {
                        Ok(true) => {}
                        Ok(false) => break,
                        Err((s, m)) => return fail(&run, s, m),
                    }
                    if step == 0 {
                        let sk = format!("pin-{cycle}").into_bytes();
                        if let Err(e) = run.put(&sk, 100) {
                            return fail(&run, "space:insert".into(), e);
                        }
                        match run.flush_and_check("long-extent script") {
                            Ok(_) => {}
                            Err((s, m)) => return fail(&run, s, m),
                        }
                    }
                    run.report.count("long_extent_script_steps", 1);
                }
            }
        }
        // --- churn
        let nkeys = i.max(4);
        let big_base = 36 + rng.usize_below(12);
        let mut big_seq = 0usize;
        for step in 0..steps {
            let k = format!("sp-{:03}", rng.usize_below(nkeys + 4)).into_bytes();
            let hl = indep::header_len(cfg.version, k.len());
            match rng.below(10) {
                0..=4 => {
                    let blocks = *rng.pick(&[1usize, 1, 2, 3, 4, 6]);
                    // often within a few bytes of filling the last block exactly (where the v1 and v2/v3
                    // header sizes round to different block counts)
                    let short = if rng.chance(1, 3) { rng.range(0, 9) } else { rng.range(0, 2000) };
                    let len = (blocks * 4096 - hl).saturating_sub(short as usize).max(22);
                    let old = run.model.get(&k).map(|v| run.blocks_of(&k, v.len())).unwrap_or(0);
                    // stay below ~93 % so that out-of-space can only come from fragmentation
                    if (run.live_blocks() - old + run.blocks_of(&k, len)) * 100 <= data_blocks * 93 {
                        if let Err(e) = run.put(&k, len) {
                            return fail(&run, "space:insert".into(), e);
                        }
                    }
                }
                5..=7 => {
                    if run.model.contains_key(&k) {
                        if let Err(e) = run.del(&k) {
                            return fail(&run, "space:delete".into(), e);
                        }
                    }
                }
                8 if data_blocks >= 160 && rng.chance(1, 2) => {
                    // long extents whose size changes by a block or two between generations: a 33-48-block request
                    // is served from the hole its slightly larger or smaller predecessor left (requests of 32 blocks
                    // and more, remainders of one or two blocks)
                    // one key walks through n, n-2, n-1, ... blocks: the third generation fits the hole the first one
                    // left with exactly one block to spare
                    let bk = b"big-0".to_vec();
                    let bhl = indep::header_len(cfg.version, bk.len());
                    let nb = big_base + [0usize, 0, 1][big_seq % 3] - [0usize, 2, 2][big_seq % 3];
                    big_seq += 1;
                    let len = nb * 4096 - bhl - rng.range(0, 100) as usize;
                    let old = run.model.get(&bk).map(|v| run.blocks_of(&bk, v.len())).unwrap_or(0);
                    if (run.live_blocks() - old + nb as u64) * 100 <= data_blocks * 80 {
                        if let Err(e) = run.put(&bk, len) {
                            return fail(&run, "space:insert".into(), e);
                        }
                        run.report.count("long_extent_rewrites", 1);
                        match run.flush_and_check("long extent") {
                            Ok(_) => {}
                            Err((s, m)) => return fail(&run, s, m),
                        }
                    } else if run.model.contains_key(&bk) {
                        if let Err(e) = run.del(&bk) {
                            return fail(&run, "space:delete".into(), e);
                        }
                    }
                }
                8 => std::thread::sleep(std::time::Duration::from_millis(rng.range(20, 130))),
                _ => {
                    // the other ways a generation is replaced: compare-and-swap, TTL-only rewrite, counters, and a
                    // counter re-created by an increment that finds its (still unflushed) generation already expired
                    let ck = format!("ct-{:02}", rng.below(6)).into_bytes();
                    match rng.below(4) {
                        0 => {
                            if let Some(cur) = run.model.get(&k).cloned() {
                                run.seq += 1;
                                let nv = values::make(Tag { key_id: kid(&k), writer: 1, seq: run.seq }, cur.len().max(22));
                                run.log.push(format!("compare_and_swap({}, len {})", hex(&k), nv.len()));
                                match run.store().compare_and_swap(&k, &cur, &nv) {
                                    Ok(true) => {
                                        run.model.insert(k.clone(), nv);
                                    }
                                    other => return fail(&run, "space:cas".into(), format!("compare_and_swap with the current value answered {other:?}")),
                                }
                                run.report.count("cas_replacements", 1);
                            }
                        }
                        1 if cfg.ttl => {
                            if run.model.contains_key(&k) {
                                run.log.push(format!("update_ttl({})", hex(&k)));
                                if let Err(e) = run.store().update_ttl(&k, 3600 + rng.below(1000)) {
                                    return fail(&run, "space:update_ttl".into(), format!("update_ttl failed: {e:?}"));
                                }
                                run.report.count("ttl_only_rewrites", 1);
                            }
                        }
                        2 if cfg.ttl && !run.model.contains_key(&ck) => {
                            // generation that is expired from the start (explicit timestamp an hour back, 1 s to live)
                            let now = std::time::SystemTime::now().duration_since(std::time::UNIX_EPOCH).map(|d| d.as_nanos() as u64).unwrap_or(0);
                            let old_ts = now - 3_600_000_000_000 - rng.below(1000);
                            run.log.push(format!("insert_with_ttl_and_timestamp({}, 8 bytes, 1 s, an hour ago) + atomic_increment", hex(&ck)));
                            if let Err(e) = run.store().insert_with_ttl_and_timestamp(&ck, &77i64.to_le_bytes(), 1, Some(old_ts)) {
                                return fail(&run, "space:insert".into(), format!("insert of an already expired counter failed: {e:?}"));
                            }
                            if rng.chance(1, 3) {
                                std::thread::sleep(std::time::Duration::from_millis(rng.range(0, 120)));
                            }
                            let d = rng.range(1, 50) as i64;
                            match run.store().atomic_increment(&ck, d) {
                                Ok(v) if v == d => {
                                    run.model.insert(ck.clone(), v.to_le_bytes().to_vec());
                                }
                                other => return fail(&run, "space:increment".into(), format!("increment of an expired counter by {d} answered {other:?} (expected a re-creation from the delta)")),
                            }
                            run.report.count("expired_counter_recreations", 1);
                        }
                        _ => {
                            let d = rng.range(1, 50) as i64;
                            let base = run.model.get(&ck).map(|v| i64::from_le_bytes(v[..8].try_into().unwrap())).unwrap_or(0);
                            run.log.push(format!("atomic_increment({}, {d})", hex(&ck)));
                            match run.store().atomic_increment(&ck, d) {
                                Ok(v) if v == base + d => {
                                    run.model.insert(ck.clone(), v.to_le_bytes().to_vec());
                                }
                                other => return fail(&run, "space:increment".into(), format!("increment of {base} by {d} answered {other:?}")),
                            }
                            run.report.count("counter_increments", 1);
                        }
                    }
                }
            }
            if rng.chance(1, 5) || step + 1 == steps {
                match run.flush_and_check("churn") {
                    Ok(true) => {}
                    Ok(false) => {
                        // fragmentation: free some space and go on
                        let victims: Vec<Vec<u8>> = run.model.keys().take(3).cloned().collect();
                        for v in victims {
                            let _ = run.del(&v);
                        }
                    }
                    Err((s, m)) => return fail(&run, s, m),
                }
            }
            if rng.chance(1, 40) {
                // clean restart: the recovered store must satisfy the same invariants. Only after a
                // successful flush: on a fragmented, nearly full device the final flush of a drop may
                // legitimately be unable to place a pending record.
                match run.flush_and_check("before restart") {
                    Ok(true) => {}
                    Ok(false) => continue,
                    Err((s, m)) => return fail(&run, s, m),
                }
                run.log.push("drop + reopen".into());
                run.pause.store(true, Ordering::SeqCst);
                std::thread::sleep(std::time::Duration::from_millis(3));
                if let Some(s) = run.store.take() {
                    if Arc::strong_count(&s) == 1 {
                        drop(s);
                        match storeutil::open(&cfg, Some(&path)) {
                            Ok(s) => run.store = Some(Arc::new(s)),
                            Err(e) => return fail(&run, "space:reopen".into(), format!("reopen failed: {e:?}")),
                        }
                        run.report.count("reopens", 1);
                        match run.flush_and_check("after recovery") {
                            Ok(_) => {}
                            Err((s, m)) => return fail(&run, s, m),
                        }
                    } else {
                        run.store = Some(s);
                    }
                }
                run.pause.store(false, Ordering::SeqCst);
            }
        }
        // --- drain epilogue
        let keys: Vec<Vec<u8>> = run.model.keys().cloned().collect();
        for k in keys {
            if let Err(e) = run.del(&k) {
                return fail(&run, "space:delete".into(), e);
            }
        }
        match run.flush_and_check("drain") {
            Ok(true) => {}
            Ok(false) => return fail(&run, "space:drain-out-of-space".into(), "flush after deleting everything reports OutOfSpace".into()),
            Err((s, m)) => return fail(&run, s, m),
        }
        let snap = run.store().verif_snapshot();
        if snap.free_by_start != vec![(16, data_blocks)] || snap.disk_usage != 0 || run.store().len() != 0 {
            return fail(&run, "space:not-empty-after-drain".into(), format!("after deleting everything: free runs {:?}, disk_usage {}, len {} — expected one run covering the whole data area", snap.free_by_start, snap.disk_usage, run.store().len()));
        }
        // a device emptied by deletes accepts again everything a fresh one does
        for (k, len) in &fill {
            if let Err(e) = run.put(k, *len) {
                return fail(&run, "space:insert".into(), e);
            }
        }
        match run.flush_and_check("refill after drain") {
            Ok(true) => {}
            Ok(false) => return fail(&run, "space:drained-device-refuses-fill".into(), format!("the fill program ({} records, {} blocks) that a fresh device accepted is refused after the device was emptied by deletes", fill.len(), run.live_blocks())),
            Err((s, m)) => return fail(&run, s, m),
        }
        run.report.count("drain_epilogues_passed", 1);
        None
    })();
    stop.store(true, Ordering::Relaxed);
    for r in readers {
        let n = r.join().unwrap_or(0);
        run.report.count("background_reads", n);
    }
    hub().set_sched(None);
    run.report.evaluations += 1;
    run.report.count("runs", 1);
    if run.report.samples.is_empty() {
        let log: Vec<String> = run.log.iter().take(14).cloned().collect();
        run.report.sample(json!({"run": rid, "config": cfg.label(), "data_blocks": data_blocks, "with_readers": with_readers, "first_calls": log}));
    }
    for (point, arrivals, sleeps, exercised) in ctl.summary() {
        if arrivals > 0 && (point.starts_with("retire") || point.starts_with("read.pinned")) {
            run.report.count(&format!("sched_{point}_perturbed"), sleeps);
            run.report.count(&format!("sched_{point}_exercised"), exercised);
        }
    }
    drop(run.store.take());
    let _ = std::fs::remove_file(&path);
    result
}

pub fn run(args: &Args) -> Report {
    let mut report = Report::new(
        "space",
        "mixed-extent workloads (1-6 block records, sizes straddling block boundaries) on 48-256-block v3/v2/v1 devices filled to 60-92 %, 1-8 flush workers, io_uring and synchronous I/O, optional background readers pinning extents, delays at the retirement / release / publish points; at every quiescent point (flush acknowledged, callers paused): live extents + free runs tile the data area exactly, both free-space views agree and are coalesced, disk_usage = 4096 x live blocks, the independent decoder finds exactly the live records in their extents and only zero or complete-marker blocks elsewhere, metadata counters equal live totals, every key returns its own bytes; clean reopen keeps all of it; epilogue: delete everything -> one free run = whole data area, then the original fill program must be accepted again. distinct = (device size, fill decile, number of free runs, live extents/4) classes",
    );
    let shard = args.num("shard", 0);
    let shards = args.num("shards", 1).max(1);
    let runs = args.num("runs", if args.thorough() { 300 } else { 24 });
    let steps = args.num("steps", if args.thorough() { 220 } else { 110 }) as usize;
    let scratch = storeutil::Scratch(storeutil::scratch_dir(&format!("space{shard}")));
    for r in 0..runs {
        if r % shards != shard {
            continue;
        }
        if let Some((sig, msg, replay)) = one_run(&mut report, args.seed, r, &scratch.0, steps) {
            report.violation(sig, msg, replay);
            if report.violations.len() >= 3 {
                break;
            }
        }
    }
    report
}
