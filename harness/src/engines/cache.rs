//! E-cache (C16, cache-level half): the public ClockCache API against a reference
//! map — accounting after every call, remove-then-miss, eviction reaching the low
//! watermark and honouring the second-chance rule — plus a concurrent conservation run.

use crate::args::Args;
use crate::report::{hex, Report};
use crate::rng::{fnv_mix, Rng};
use bytes::Bytes;
use feoxdb::core::cache::ClockCache;
use feoxdb::stats::Statistics;
use serde_json::json;
use std::collections::BTreeMap;
use std::sync::Arc;

struct Ref {
    value: Vec<u8>,
    size: usize,
}

fn snapshot(cache: &ClockCache) -> BTreeMap<Vec<u8>, (usize, bool, usize)> {
    cache.verif_entries().into_iter().map(|(k, size, rbit, _bound, vlen)| (k, (size, rbit, vlen))).collect()
}

fn sequence(report: &mut Report, seed: u64, n: u64, steps: usize) -> Option<(String, String)> {
    let mut rng = Rng::derive(seed, n, 0xcac4e);
    let stats = Arc::new(Statistics::new());
    let cache = ClockCache::new(stats.clone());
    // measured per-entry overhead
    cache.insert(b"probe".to_vec(), Bytes::from_static(b"v"));
    let overhead = cache.stats().memory_usage - 5 - 1;
    cache.remove(b"probe");
    if cache.stats().memory_usage != 0 {
        return Some(("cache:acct".into(), "memory not zero after removing the only entry".into()));
    }
    // small watermarks so that evictions happen: high 40-200 KiB, low 25-75 % of it
    let high = rng.range(40, 200) as usize * 1024;
    let low = high * rng.range(25, 75) as usize / 100;
    cache.verif_set_watermarks(high, low);
    let mut model: BTreeMap<Vec<u8>, Ref> = BTreeMap::new();
    let nkeys = 20 + rng.usize_below(200);
    // half of the runs use keys crafted to share a handful of the cache's 16384 buckets, so that a bucket
    // holds several entries and an eviction pass has to walk inside buckets (found by brute force with the
    // cache's own hash function, which is public)
    let pool: Vec<Vec<u8>> = if rng.chance(1, 2) {
        let buckets: Vec<u32> = (0..rng.range(4, 10)).map(|_| rng.below(16384) as u32).collect();
        let mut pool = Vec::new();
        let mut i = 0u64;
        while pool.len() < nkeys.min(60) && i < 400_000 {
            let k = format!("cc{n}-{i}").into_bytes();
            if buckets.contains(&(feoxdb::utils::hash::murmur3_32(&k, 0) % 16384)) {
                pool.push(k);
            }
            i += 1;
        }
        report.count("runs_with_colliding_keys", 1);
        pool
    } else {
        (0..nkeys).map(|i| format!("ck-{i:04}").into_bytes()).collect()
    };
    let mut log: Vec<String> = Vec::new();
    for step in 0..steps {
        let k = rng.pick(&pool).clone();
        let before = snapshot(&cache);
        let usage_before = cache.stats().memory_usage;
        let roll = rng.below(100);
        let mut evicting_call = false;
        if roll < 45 {
            let vlen = match rng.below(10) {
                0 => high / 4 + rng.usize_below(2000), // around the "too large to cache" rule
                1..=2 => rng.range(2000, 20000) as usize,
                _ => rng.range(1, 1500) as usize,
            };
            let v = rng.bytes(vlen);
            let size = k.len() + vlen + overhead;
            log.push(format!("insert({}, {} bytes)", hex(&k), vlen));
            cache.insert(k.clone(), Bytes::from(v.clone()));
            report.count("inserts", 1);
            if size > high / 4 {
                // must not be cached; an older entry for the key (if any) stays as it was
                report.count("too_large_inserts", 1);
            } else {
                evicting_call = usage_before + size > high;
                model.insert(k.clone(), Ref { value: v, size });
            }
        } else if roll < 70 {
            log.push(format!("get({})", hex(&k)));
            let got = cache.get(&k);
            match (model.get(&k), &got) {
                (Some(r), Some(g)) if g.as_ref() == r.value.as_slice() => report.count("hits", 1),
                (None, None) => report.count("misses", 1),
                (Some(_), Some(_)) => return Some(("cache:wrong-value".into(), format!("get({}) returned a value different from the last one inserted; last calls {:?}", hex(&k), log.iter().rev().take(6).collect::<Vec<_>>()))),
                (Some(_), None) => return Some(("cache:lost-entry".into(), format!("get({}) missed although the entry was inserted, never removed, and no eviction ran since", hex(&k)))),
                (None, Some(_)) => return Some(("cache:hit-after-remove".into(), format!("get({}) hit although the entry was removed / evicted / never inserted", hex(&k)))),
            }
        } else if roll < 85 {
            log.push(format!("remove({})", hex(&k)));
            cache.remove(&k);
            model.remove(&k);
            if cache.get(&k).is_some() {
                return Some(("cache:hit-after-remove".into(), format!("remove({}) followed by a hit", hex(&k))));
            }
            report.count("removes", 1);
        } else if roll < 95 {
            log.push("evict_entries()".into());
            cache.evict_entries();
            evicting_call = usage_before > low;
            report.count("explicit_evictions", 1);
        } else if roll < 98 {
            log.push("clear()".into());
            cache.clear();
            model.clear();
            if cache.stats().memory_usage != 0 || !cache.verif_entries().is_empty() {
                return Some(("cache:clear".into(), format!("after clear(): memory_usage {} entries {}", cache.stats().memory_usage, cache.verif_entries().len())));
            }
        } else {
            // public MiB-granular setter: (1, 0) is the smallest pair it accepts
            log.push("adjust_watermarks(1, 0)".into());
            cache.adjust_watermarks(1, 0);
            cache.verif_set_watermarks(high, low);
        }
        report.evaluations += 1;
        // ---- after every call
        let after = snapshot(&cache);
        let usage = cache.stats().memory_usage;
        let sum: usize = after.values().map(|e| e.0).sum();
        if usage != sum || stats.cache_memory.load(std::sync::atomic::Ordering::Relaxed) != sum {
            return Some(("cache:accounting".into(), format!("after {}: reported memory {} != sum of entry sizes {} ({} entries)", log.last().unwrap(), usage, sum, after.len())));
        }
        for (key, (size, _, vlen)) in &after {
            if *size != key.len() + vlen + overhead {
                return Some(("cache:entry-size".into(), format!("entry {} has size {} but key+value+overhead = {}", hex(key), size, key.len() + vlen + overhead)));
            }
        }
        // entries may only disappear through remove/clear or an eviction pass
        let evicted: Vec<&Vec<u8>> = model.keys().filter(|k| !after.contains_key(*k)).collect();
        if !evicted.is_empty() {
            if !evicting_call {
                return Some(("cache:unexpected-eviction".into(), format!("after {}: {} entries vanished although usage {} was within the watermarks (high {}, low {})", log.last().unwrap(), evicted.len(), usage_before, high, low)));
            }
            report.count("evictions_observed", evicted.len() as u64);
            // second chance: if evicting only unreferenced entries could have reached the target,
            // no entry that was referenced when the pass began may be gone. (The entry inserted by
            // this very call is referenced by definition.)
            let need = usage_before.saturating_sub(low);
            let unref_bytes: usize = before.iter().filter(|(_, e)| !e.1).map(|(_, e)| e.0).sum();
            let referenced_victims: Vec<String> = evicted.iter().filter(|k| before.get(**k).map(|e| e.1).unwrap_or(true)).map(|k| hex(k)).collect();
            if unref_bytes >= need && !referenced_victims.is_empty() && matches!(log.last().map(|s| s.as_str()), Some("evict_entries()")) {
                return Some(("cache:evicted-referenced".into(), format!("eviction removed recently referenced entries {:?} although unreferenced entries totalling {} bytes would have covered the {} bytes needed", referenced_victims.iter().take(4).collect::<Vec<_>>(), unref_bytes, need)));
            }
            if unref_bytes >= need {
                report.count("second_chance_rule_decisive", 1);
            }
            let gone: Vec<Vec<u8>> = evicted.into_iter().cloned().collect();
            for k in gone {
                model.remove(&k);
            }
        }
        if evicting_call && matches!(log.last().map(|s| s.as_str()), Some("evict_entries()")) && usage > low {
            // three sweeps always suffice sequentially: the first clears every reference bit
            return Some(("cache:eviction-misses-low-watermark".into(), format!("evict_entries() started at {} bytes and stopped at {} bytes, above the low watermark {}", usage_before, usage, low)));
        }
        if after.len() != model.len() {
            let extra: Vec<String> = after.keys().filter(|k| !model.contains_key(*k)).map(|k| hex(k)).take(3).collect();
            return Some(("cache:phantom-entry".into(), format!("after {}: cache holds entries the reference does not: {:?}", log.last().unwrap(), extra)));
        }
        if usage > high && !matches!(log.last().map(|s| s.as_str()), Some("get(..)")) {
            // an insert may overshoot by at most the entry it just added
            let last_size = model.get(&k).map(|r| r.size).unwrap_or(0);
            if usage > high + last_size {
                return Some(("cache:over-high-watermark".into(), format!("usage {} exceeds the high watermark {} by more than the last inserted entry", usage, high)));
            }
        }
        report.nontrivial.insert(fnv_mix(fnv_mix(after.len() as u64 / 8, usage as u64 * 8 / high as u64), roll / 15 + if evicting_call { 100 } else { 0 }));
        let _ = step;
    }
    if report.samples.is_empty() {
        report.sample(json!({"sequence": n, "high": high, "low": low, "keys": nkeys, "first_calls": log.iter().take(12).collect::<Vec<_>>()}));
    }
    None
}

fn concurrent(report: &mut Report, seed: u64, n: u64) -> Option<(String, String)> {
    let stats = Arc::new(Statistics::new());
    let cache = Arc::new(ClockCache::new(stats.clone()));
    cache.verif_set_watermarks(96 * 1024, 48 * 1024);
    let mut hs = Vec::new();
    for t in 0..8u64 {
        let c = cache.clone();
        hs.push(std::thread::spawn(move || {
            let mut rng = Rng::derive(seed, n, t);
            for _ in 0..4000 {
                let k = format!("cc-{:03}", rng.below(120)).into_bytes();
                match rng.below(10) {
                    0..=4 => {
                        let n = rng.range(1, 3000) as usize;
                        c.insert(k, Bytes::from(rng.bytes(n)))
                    }
                    5..=6 => {
                        let _ = c.get(&k);
                    }
                    7 => c.remove(&k),
                    8 => c.evict_entries(),
                    _ => {
                        if rng.chance(1, 20) {
                            c.clear()
                        }
                    }
                }
            }
        }));
    }
    for h in hs {
        if h.join().is_err() {
            return Some(("cache:panic".into(), "a thread panicked inside the cache".into()));
        }
    }
    report.evaluations += 32000;
    let entries = cache.verif_entries();
    let sum: usize = entries.iter().map(|e| e.1).sum();
    let usage = cache.stats().memory_usage;
    if usage != sum {
        return Some(("cache:accounting-drift".into(), format!("after 8 threads x 4000 mixed calls: reported memory {} != sum of the {} entries' sizes {}", usage, entries.len(), sum)));
    }
    cache.clear();
    if cache.stats().memory_usage != 0 {
        return Some(("cache:accounting-drift".into(), format!("after clear(): reported memory {} (conservation broken)", cache.stats().memory_usage)));
    }
    report.count("concurrent_runs", 1);
    report.nontrivial.insert(fnv_mix(n, sum as u64));
    None
}

pub fn run(args: &Args) -> Report {
    let mut report = Report::new(
        "cache",
        "the public ClockCache API (insert/get/remove/evict_entries/clear/adjust_watermarks) driven by seeded sequences with byte-granular small watermarks (40-200 KiB) and values sized around the too-large-to-cache rule; after EVERY call: reported memory = sum of entry sizes (entry overhead measured), each entry's size = key+value+overhead, get returns the last inserted value or misses, remove is followed by a miss, entries vanish only through remove/clear or an eviction pass that was due, evict_entries ends at or below the low watermark, and when the unreferenced entries alone would have sufficed no referenced entry is evicted; plus 8-thread mixed runs checked for accounting conservation at quiescence. distinct = (entry-count class, usage/high class, call kind, eviction due)",
    );
    let shard = args.num("shard", 0);
    let shards = args.num("shards", 1).max(1);
    let seqs = args.num("sequences", if args.thorough() { 4000 } else { 200 });
    let steps = args.num("steps", if args.thorough() { 3000 } else { 1200 }) as usize;
    for n in 0..seqs {
        if n % shards != shard {
            continue;
        }
        if let Some((sig, msg)) = sequence(&mut report, args.seed, n, steps) {
            report.violation(sig, msg, json!({"engine": "cache", "seed": args.seed, "sequence": n, "steps": steps}));
            if report.violations.len() >= 3 {
                return report;
            }
        }
        if n % 10 == 0 {
            if let Some((sig, msg)) = concurrent(&mut report, args.seed, n) {
                report.violation(sig, msg, json!({"engine": "cache", "seed": args.seed, "concurrent": n}));
            }
        }
    }
    report
}
