//! E-cache (C16, cache-level half): the public ClockCache API against a reference
//! map — accounting after every call, remove-then-miss, eviction reaching the low
//! watermark and honouring the second-chance rule — plus a concurrent conservation run.

use crate::args::Args;
use crate::report::{hex, Report};
use crate::rng::{fnv_mix, Rng};
use bytes::Bytes;
use feoxdb::core::cache::ClockCache;
use feoxdb::stats::Statistics;
use serde_json::json;
use std::collections::BTreeMap;
use std::sync::Arc;

struct Ref {
    value: Vec<u8>,
    size: usize,
}

fn snapshot(cache: &ClockCache) -> BTreeMap<Vec<u8>, (usize, bool, usize)> {
    cache.verif_entries().into_iter().map(|(k, size, rbit, _bound, vlen)| (k, (size, rbit, vlen))).collect()
}

fn sequence(report: &mut Report, seed: u64, n: u64, steps: usize) -> Option<(String, String)> {
    let mut rng = Rng::derive(seed, n, 0xcac4e);
    let stats = Arc::new(Statistics::new());
    let cache = ClockCache::new(stats.clone());
    // measured per-entry overhead
    cache.insert(b"probe".to_vec(), Bytes::from_static(b"v"));
    let overhead = cache.stats().memory_usage - 5 - 1;
    cache.remove(b"probe");
    if cache.stats().memory_usage != 0 {
        return Some(("cache:acct".into(), "memory not zero after removing the only entry".into()));
    }
    // small watermarks so that evictions happen: high 40-200 KiB, low 25-75 % of it
    let high = rng.range(40, 200) as usize * 1024;
    let low = high * rng.range(25, 75) as usize / 100;
    cache.verif_set_watermarks(high, low);
    let mut model: BTreeMap<Vec<u8>, Ref> = BTreeMap::new();
    let nkeys = 20 + rng.usize_below(200);
    // half of the runs use keys crafted to share a handful of the cache's 16384 buckets, so that a bucket
    // holds several entries and an eviction pass has to walk inside buckets (found by brute force with the
    // cache's own hash function, which is public)
    let pool: Vec<Vec<u8>> = if rng.chance(1, 2) {
        let buckets: Vec<u32> = (0..rng.range(4, 10)).map(|_| rng.below(16384) as u32).collect();
        let mut pool = Vec::new();
        let mut i = 0u64;
        while pool.len() < nkeys.min(60) && i < 400_000 {
            let k = format!("cc{n}-{i}").into_bytes();
            if buckets.contains(&(feoxdb::utils::hash::murmur3_32(&k, 0) % 16384)) {
                pool.push(k);
            }
            i += 1;
        }
        report.count("runs_with_colliding_keys", 1);
        pool
    } else {
        (0..nkeys).map(|i| format!("ck-{i:04}").into_bytes()).collect()
    };
    let mut log: Vec<String> = Vec::new();
    for step in 0..steps {
        let k = rng.pick(&pool).clone();
        let before = snapshot(&cache);
        let usage_before = cache.stats().memory_usage;
        let roll = rng.below(100);
        let mut evicting_call = false;
        if roll < 45 {
            let vlen = match rng.below(10) {
                0 => high / 4 + rng.usize_below(2000), // around the "too large to cache" rule
                1..=2 => rng.range(2000, 20000) as usize,
                _ => rng.range(1, 1500) as usize,
            };
            let v = rng.bytes(vlen);
            let size = k.len() + vlen + overhead;
            log.push(format!("insert({}, {} bytes)", hex(&k), vlen));
            cache.insert(k.clone(), Bytes::from(v.clone()));
            report.count("inserts", 1);
            if size > high / 4 {
                // must not be cached; an older entry for the key (if any) stays as it was
                report.count("too_large_inserts", 1);
            } else {
                evicting_call = usage_before + size > high;
                model.insert(k.clone(), Ref { value: v, size });
            }
        } else if roll < 70 {
            log.push(format!("get({})", hex(&k)));
            let got = cache.get(&k);
            match (model.get(&k), &got) {
                (Some(r), Some(g)) if g.as_ref() == r.value.as_slice() => report.count("hits", 1),
                (None, None) => report.count("misses", 1),
                (Some(_), Some(_)) => return Some(("cache:wrong-value".into(), format!("get({}) returned a value different from the last one inserted; last calls {:?}", hex(&k), log.iter().rev().take(6).collect::<Vec<_>>()))),
                (Some(_), None) => return Some(("cache:lost-entry".into(), format!("get({}) missed although the entry was inserted, never removed, and no eviction ran since", hex(&k)))),
                (None, Some(_)) => return Some(("cache:hit-after-remove".into(), format!("get({}) hit although the entry was removed / evicted / never inserted", hex(&k)))),
            }
        } else if roll < 85 {
            log.push(format!("remove({})", hex(&k)));
            cache.remove(&k);
            model.remove(&k);
            if cache.get(&k).is_some() {
                return Some(("cache:hit-after-remove".into(), format!("remove({}) followed by a hit", hex(&k))));
            }
            report.count("removes", 1);
        } else if roll < 95 {
            log.push("evict_entries()".into());
            cache.evict_entries();
            evicting_call = usage_before > low;
            report.count("explicit_evictions", 1);
        } else if roll < 98 {
            log.push("clear()".into());
            cache.clear();
            model.clear();
            if cache.stats().memory_usage != 0 || !cache.verif_entries().is_empty() {
                return Some(("cache:clear".into(), format!("after clear(): memory_usage {} entries {}", cache.stats().memory_usage, cache.verif_entries().len())));
            }
        } else {
            // public MiB-granular setter: (1, 0) is the smallest pair it accepts
            log.push("adjust_watermarks(1, 0)".into());
            cache.adjust_watermarks(1, 0);
            cache.verif_set_watermarks(high, low);
        }
        report.evaluations += 1;
        // ---- after every call
        let after = snapshot(&cache);
        let usage = cache.stats().memory_usage;
        let sum: usize = after.values().map(|e| e.0).sum();
        if usage != sum || stats.cache_memory.load(std::sync::atomic::Ordering::Relaxed) != sum {
            return Some(("cache:accounting".into(), format!("after {}: reported memory {} != sum of entry sizes {} ({} entries)", log.last().unwrap(), usage, sum, after.len())));
        }
        for (key, (size, _, vlen)) in &after {
            if *size != key.len() + vlen + overhead {
                return Some(("cache:entry-size".into(), format!("entry {} has size {} but key+value+overhead = {}", hex(key), size, key.len() + vlen + overhead)));
            }
        }
        // entries may only disappear through remove/clear or an eviction pass
        let evicted: Vec<&Vec<u8>> = model.keys().filter(|k| !after.contains_key(*k)).collect();
        if !evicted.is_empty() {
            if !evicting_call {
                return Some(("cache:unexpected-eviction".into(), format!("after {}: {} entries vanished although usage {} was within the watermarks (high {}, low {})", log.last().unwrap(), evicted.len(), usage_before, high, low)));
            }
            report.count("evictions_observed", evicted.len() as u64);
            // second chance: if evicting only unreferenced entries could have reached the target,
            // no entry that was referenced when the pass began may be gone. (The entry inserted by
            // this very call is referenced by definition.)
            let need = usage_before.saturating_sub(low);
            let unref_bytes: usize = before.iter().filter(|(_, e)| !e.1).map(|(_, e)| e.0).sum();
            let referenced_victims: Vec<String> = evicted.iter().filter(|k| before.get(**k).map(|e| e.1).unwrap_or(true)).map(|k| hex(k)).collect();
            if unref_bytes >= need && !referenced_victims.is_empty() && matches!(log.last().map(|s| s.as_str()), Some("evict_entries()")) {
                return Some(("cache:evicted-referenced".into(), format!("eviction removed recently referenced entries {:?} although unreferenced entries totalling {} bytes would have covered the {} bytes needed", referenced_victims.iter().take(4).collect::<Vec<_>>(), unref_bytes, need)));
            }
            if unref_bytes >= need {
                report.count("second_chance_rule_decisive", 1);
            }
            let gone: Vec<Vec<u8>> = evicted.into_iter().cloned().collect();
            for k in gone {
                model.remove(&k);
            }
        }
        if evicting_call && matches!(log.last().map(|s| s.as_str()), Some("evict_entries()")) && usage > low {
            // three sweeps always suffice sequentially: the first clears every reference bit
            return Some(("cache:eviction-misses-low-watermark".into(), format!("evict_entries() started at {} bytes and stopped at {} bytes, above the low watermark {}", usage_before, usage, low)));
        }
        if after.len() != model.len() {
            let extra: Vec<String> = after.keys().filter(|k| !model.contains_key(*k)).map(|k| hex(k)).take(3).collect();
            return Some(("cache:phantom-entry".into(), format!("after {}: cache holds entries the reference does not: {:?}", log.last().unwrap(), extra)));
        }
        if usage > high && !matches!(log.last().map(|s| s.as_str()), Some("get(..)")) {
            // an insert may overshoot by at most the entry it just added
            let last_size = model.get(&k).map(|r| r.size).unwrap_or(0);
            if usage > high + last_size {
                return Some(("cache:over-high-watermark".into(), format!("usage {} exceeds the high watermark {} by more than the last inserted entry", usage, high)));
            }
        }
        report.nontrivial.insert(fnv_mix(fnv_mix(after.len() as u64 / 8, usage as u64 * 8 / high as u64), roll / 15 + if evicting_call { 100 } else { 0 }));
        let _ = step;
    }
    if report.samples.is_empty() {
        report.sample(json!({"sequence": n, "high": high, "low": low, "keys": nkeys, "first_calls": log.iter().take(12).collect::<Vec<_>>()}));
    }
    None
}

fn concurrent(report: &mut Report, seed: u64, n: u64) -> Option<(String, String)> {
    let stats = Arc::new(Statistics::new());
    let cache = Arc::new(ClockCache::new(stats.clone()));
    cache.verif_set_watermarks(96 * 1024, 48 * 1024);
    let mut hs = Vec::new();
    for t in 0..8u64 {
        let c = cache.clone();
        hs.push(std::thread::spawn(move || {
            let mut rng = Rng::derive(seed, n, t);
            for _ in 0..4000 {
                let k = format!("cc-{:03}", rng.below(120)).into_bytes();
                match rng.below(10) {
                    0..=4 => {
                        let n = rng.range(1, 3000) as usize;
                        c.insert(k, Bytes::from(rng.bytes(n)))
                    }
                    5..=6 => {
                        let _ = c.get(&k);
                    }
                    7 => c.remove(&k),
                    8 => c.evict_entries(),
                    _ => {
                        if rng.chance(1, 20) {
                            c.clear()
                        }
                    }
                }
            }
        }));
    }
    for h in hs {
        if h.join().is_err() {
            return Some(("cache:panic".into(), "a thread panicked inside the cache".into()));
        }
    }
    report.evaluations += 32000;
    let entries = cache.verif_entries();
    let sum: usize = entries.iter().map(|e| e.1).sum();
    let usage = cache.stats().memory_usage;
    if usage != sum {
        return Some(("cache:accounting-drift".into(), format!("after 8 threads x 4000 mixed calls: reported memory {} != sum of the {} entries' sizes {}", usage, entries.len(), sum)));
    }
    cache.clear();
    if cache.stats().memory_usage != 0 {
        return Some(("cache:accounting-drift".into(), format!("after clear(): reported memory {} (conservation broken)", cache.stats().memory_usage)));
    }
    report.count("concurrent_runs", 1);
    report.nontrivial.insert(fnv_mix(n, sum as u64));
    // remove-then-miss under concurrency: every thread owns its keys (nobody else inserts them), all keys are
    // crafted to share two buckets, so that removals by the neighbours shift the entries inside the bucket while
    // a thread is between finding its entry and taking it out. After its own remove(k) a thread's get(k) must miss.
    cache.verif_set_watermarks(64 << 20, 64 << 20);
    let buckets = [(seed.wrapping_add(n) % 16384) as u32, (seed.wrapping_mul(31).wrapping_add(n * 7) % 16384) as u32];
    let mut pool: Vec<Vec<u8>> = Vec::new();
    let mut i = 0u64;
    while pool.len() < 8 * 24 && i < 4_000_000 {
        let k = format!("rm{n}-{i}").into_bytes();
        if buckets.contains(&(feoxdb::utils::hash::murmur3_32(&k, 0) % 16384)) {
            pool.push(k);
        }
        i += 1;
    }
    let pool = Arc::new(pool);
    let hits_after_remove = Arc::new(std::sync::atomic::AtomicU64::new(0));
    let first = Arc::new(parking_lot::Mutex::new(None::<String>));
    let mut hs = Vec::new();
    for t in 0..8usize {
        let (c, pool, bad, first) = (cache.clone(), pool.clone(), hits_after_remove.clone(), first.clone());
        hs.push(std::thread::spawn(move || {
            let mine: Vec<&Vec<u8>> = pool.iter().skip(t).step_by(8).collect();
            if mine.is_empty() {
                return 0u64;
            }
            let mut rng = Rng::derive(seed, n, 100 + t as u64);
            let mut rounds = 0u64;
            for r in 0..3000u64 {
                let k = mine[rng.usize_below(mine.len())];
                c.insert(k.clone(), Bytes::from(vec![t as u8; 16 + (r % 50) as usize]));
                if rng.chance(1, 3) {
                    let k2 = mine[rng.usize_below(mine.len())];
                    c.insert(k2.clone(), Bytes::from(vec![t as u8; 8]));
                }
                c.remove(k);
                if c.get(k).is_some() {
                    bad.fetch_add(1, std::sync::atomic::Ordering::Relaxed);
                    let mut f = first.lock();
                    if f.is_none() {
                        *f = Some(format!("thread {t}, round {r}: remove({}) by the only thread that inserts this key was followed by a hit", hex(k)));
                    }
                }
                rounds += 1;
            }
            rounds
        }));
    }
    let mut rounds = 0;
    for h in hs {
        rounds += h.join().unwrap_or(0);
    }
    report.evaluations += rounds;
    report.count("concurrent_remove_then_get_rounds", rounds);
    report.count("keys_sharing_two_buckets", pool.len() as u64);
    let bad = hits_after_remove.load(std::sync::atomic::Ordering::Relaxed);
    if bad > 0 {
        return Some(("cache:hit-after-remove".into(), format!("{bad} of {rounds} concurrent remove-then-get rounds hit (keys of 8 threads share two buckets): {}", first.lock().clone().unwrap_or_default())));
    }
    let entries = cache.verif_entries();
    let sum: usize = entries.iter().map(|e| e.1).sum();
    if cache.stats().memory_usage != sum {
        return Some(("cache:accounting-drift".into(), format!("after the concurrent remove-then-get rounds: reported memory {} != sum of entry sizes {sum}", cache.stats().memory_usage)));
    }
    // eviction under concurrent lookups: the two shared buckets are filled (the same crafted keys), six threads look
    // up an ABSENT key of those buckets in a tight loop (each lookup holds the bucket's shared lock for a moment and
    // references nothing), and evict_entries() runs with the low watermark at zero. Nothing was referenced during
    // the call, so it has to end at (or below) the low watermark: a bucket may not be skipped because it is busy.
    cache.clear();
    for (i, k) in pool.iter().enumerate() {
        cache.insert(k.clone(), Bytes::from(vec![i as u8; 600]));
    }
    // more entries so that walking the buckets takes a while
    for i in 0..3000u32 {
        cache.insert(format!("fill{n}-{i}").into_bytes(), Bytes::from(vec![1u8; 200]));
    }
    let absent: Vec<Vec<u8>> = {
        let mut v = Vec::new();
        let mut i = 0u64;
        while v.len() < 2 && i < 4_000_000 {
            let k = format!("absent{n}-{i}").into_bytes();
            if buckets.contains(&(feoxdb::utils::hash::murmur3_32(&k, 0) % 16384)) {
                v.push(k);
            }
            i += 1;
        }
        v
    };
    let stop = Arc::new(std::sync::atomic::AtomicBool::new(false));
    let mut lookers = Vec::new();
    for t in 0..6usize {
        let (c, stop, absent) = (cache.clone(), stop.clone(), absent.clone());
        lookers.push(std::thread::spawn(move || {
            let mut n = 0u64;
            while !stop.load(std::sync::atomic::Ordering::Relaxed) {
                if let Some(k) = absent.get(t % absent.len().max(1)) {
                    let _ = c.get(k);
                }
                n += 1;
            }
            n
        }));
    }
    let mut worst = 0usize;
    for _ in 0..6 {
        let before = cache.stats().memory_usage;
        cache.verif_set_watermarks(64 << 20, 0);
        cache.evict_entries();
        let after = cache.stats().memory_usage;
        worst = worst.max(after);
        report.evaluations += 1;
        report.count("evictions_under_concurrent_lookups", 1);
        if after > 0 {
            stop.store(true, std::sync::atomic::Ordering::Relaxed);
            for h in lookers {
                let _ = h.join();
            }
            return Some(("cache:eviction-misses-low-watermark".into(), format!("evict_entries() under concurrent lookups of absent keys (nothing referenced) started at {before} bytes and stopped at {after} bytes, above the low watermark 0 ({} entries left)", cache.verif_entries().len())));
        }
        cache.verif_set_watermarks(64 << 20, 64 << 20);
        for (i, k) in pool.iter().enumerate() {
            cache.insert(k.clone(), Bytes::from(vec![i as u8; 600]));
        }
    }
    stop.store(true, std::sync::atomic::Ordering::Relaxed);
    let mut lookups = 0;
    for h in lookers {
        lookups += h.join().unwrap_or(0);
    }
    report.count("concurrent_absent_key_lookups", lookups);
    let _ = worst;
    None
}

/// Store-level second chance: the reference bits that matter in production are set by reads that go THROUGH the
/// store (generation-bound lookups), which the public cache API above never exercises. The harness keeps its own
/// record of which keys were read since the previous eviction pass and never consults the cache's bits for the
/// "recently referenced" side of the rule.
fn store_second_chance(report: &mut Report, seed: u64, n: u64) -> Option<(String, String)> {
    use crate::storeutil::{self, Cfg};
    let mut rng = Rng::derive(seed, n, 0x5ec0);
    let dir = storeutil::Scratch(storeutil::scratch_dir(&format!("cache2c{n}")));
    let path = format!("{}/c.feox", dir.0);
    let mut cfg = Cfg::disk(16 + 400);
    cfg.cache = true;
    cfg.ttl = rng.chance(1, 2);
    storeutil::ensure_device(&cfg, &path);
    let store = match storeutil::open(&cfg, Some(&path)) {
        Ok(s) => s,
        Err(e) => {
            report.inconclusive.push(format!("store_second_chance: open failed {e:?}"));
            return None;
        }
    };
    let cache = store.verif_cache()?;
    cache.verif_set_watermarks(64 << 20, 64 << 20);
    let nkeys = 24 + rng.usize_below(60);
    let keys: Vec<Vec<u8>> = (0..nkeys).map(|i| format!("sc{n}-{i:03}").into_bytes()).collect();
    for (i, k) in keys.iter().enumerate() {
        let v = crate::values::make(crate::values::Tag { key_id: i as u32, writer: 0, seq: 1 }, rng.range(300, 3000) as usize);
        if store.insert(k, &v).is_err() {
            return None;
        }
    }
    if store.flush().is_err() {
        report.inconclusive.push("store_second_chance: flush failed".into());
        return None;
    }
    // first reads come from the device and fill the cache
    for k in &keys {
        let _ = store.get(k);
    }
    let entries = |c: &ClockCache| -> BTreeMap<Vec<u8>, (usize, bool)> { c.verif_entries().into_iter().map(|(k, size, rbit, _b, _v)| (k, (size, rbit))).collect() };
    let filled = entries(&cache);
    if filled.len() < nkeys / 2 {
        report.inconclusive.push(format!("store_second_chance: only {} of {} values were cached after a flush and one read each", filled.len(), nkeys));
        return None;
    }
    let usage = |c: &ClockCache| c.stats().memory_usage;
    // pass 1: evict a few entries; every surviving entry has been passed by the hand, its bit cleared
    let total = usage(&cache);
    let low1 = total - total / (4 + rng.usize_below(6));
    cache.verif_set_watermarks(64 << 20, low1);
    cache.evict_entries();
    let survivors = entries(&cache);
    if usage(&cache) > low1 {
        return Some(("cache:eviction-misses-low-watermark".into(), format!("store cache: evict_entries() started at {total} bytes and stopped at {} bytes, above the low watermark {low1}", usage(&cache))));
    }
    // re-read a subset THROUGH THE STORE (cache hits on the bound generation)
    // a re-read counts only if it did not go to the device (the values are not resident after the flush, so it
    // was served by the cache); get / get_bytes additionally show up in the store's hit counter
    let _ = crate::mon::hub();
    let hits_before = store.stats().cache_hits;
    let mut reread: std::collections::BTreeSet<Vec<u8>> = Default::default();
    let mut counted = 0u64;
    for k in survivors.keys() {
        if rng.chance(1, 2) {
            let preads = crate::mon::thread_preads();
            let how = rng.below(3);
            let ok = match how {
                0 => store.get(k).is_ok(),
                1 => store.get_bytes(k).is_ok(),
                _ => store.range_query(k, k, 2).map(|r| r.len() == 1).unwrap_or(false),
            };
            if ok && crate::mon::thread_preads() == preads {
                reread.insert(k.clone());
                if how < 2 {
                    counted += 1;
                }
            }
        }
    }
    let hits = store.stats().cache_hits - hits_before;
    report.count("store_cache_rereads", reread.len() as u64);
    report.count("store_cache_hits_confirmed", hits);
    if hits < counted {
        report.inconclusive.push(format!("store_second_chance: {counted} re-reads by get/get_bytes without a device read but only {hits} counted cache hits"));
        return None;
    }
    // pass 2: the entries nobody re-read suffice on their own
    let before = entries(&cache);
    let now = usage(&cache);
    let cold: usize = before.iter().filter(|(k, _)| !reread.contains(*k)).map(|(_, e)| e.0).sum();
    if cold == 0 || reread.is_empty() {
        return None;
    }
    let need = 1 + rng.usize_below(cold.max(2) - 1);
    cache.verif_set_watermarks(64 << 20, now - need);
    cache.evict_entries();
    let after = entries(&cache);
    report.evaluations += 1;
    report.count("store_second_chance_passes", 1);
    let victims: Vec<&Vec<u8>> = before.keys().filter(|k| !after.contains_key(*k)).collect();
    let hot_victims: Vec<String> = victims.iter().filter(|k| reread.contains(**k)).map(|k| hex(k)).collect();
    report.nontrivial.insert(fnv_mix(n, victims.len() as u64));
    if usage(&cache) > now - need {
        return Some(("cache:eviction-misses-low-watermark".into(), format!("store cache: evict_entries() started at {now} bytes and stopped at {} bytes, above the low watermark {}", usage(&cache), now - need)));
    }
    if !hot_victims.is_empty() {
        return Some((
            "cache:evicted-referenced".into(),
            format!("store cache: {} of {} entries re-read through the store since the previous eviction pass were evicted ({:?}...) although the {} entries nobody re-read total {cold} bytes and only {need} bytes had to go", hot_victims.len(), reread.len(), hot_victims.iter().take(3).collect::<Vec<_>>(), before.len() - reread.len()),
        ));
    }
    // transparency on the way out: every key still reads its own value
    for (i, k) in keys.iter().enumerate() {
        match store.get(k) {
            Ok(v) if crate::values::check(&v).map(|t| t.key_id == i as u32).unwrap_or(false) => {}
            other => return Some(("cache:wrong-value".into(), format!("store cache: get({}) after the eviction passes returned {:?}", hex(k), other.map(|v| crate::values::describe(&v))))),
        }
    }
    drop(store);
    None
}

pub fn run(args: &Args) -> Report {
    let mut report = Report::new(
        "cache",
        "the public ClockCache API (insert/get/remove/evict_entries/clear/adjust_watermarks) driven by seeded sequences with byte-granular small watermarks (40-200 KiB) and values sized around the too-large-to-cache rule; after EVERY call: reported memory = sum of entry sizes (entry overhead measured), each entry's size = key+value+overhead, get returns the last inserted value or misses, remove is followed by a miss, entries vanish only through remove/clear or an eviction pass that was due, evict_entries ends at or below the low watermark, and when the unreferenced entries alone would have sufficed no referenced entry is evicted; plus 8-thread mixed runs checked for accounting conservation at quiescence; plus store-level second-chance scenarios (persistent store, values flushed and cached by reads, one eviction pass, a subset re-read THROUGH the store with the hits confirmed by the hit counter, second pass sized so that the entries nobody re-read suffice: none of the re-read entries may go - the harness keeps its own record of what was re-read and does not consult the cache's reference bits). distinct = (entry-count class, usage/high class, call kind, eviction due)",
    );
    let shard = args.num("shard", 0);
    let shards = args.num("shards", 1).max(1);
    let seqs = args.num("sequences", if args.thorough() { 4000 } else { 200 });
    let steps = args.num("steps", if args.thorough() { 3000 } else { 1200 }) as usize;
    for n in 0..seqs {
        if n % shards != shard {
            continue;
        }
        if let Some((sig, msg)) = sequence(&mut report, args.seed, n, steps) {
            report.violation(sig, msg, json!({"engine": "cache", "seed": args.seed, "sequence": n, "steps": steps}));
            if report.violations.len() >= 3 {
                return report;
            }
        }
        if n % 4 == 0 {
            if let Some((sig, msg)) = store_second_chance(&mut report, args.seed, n) {
                report.violation(sig, msg, json!({"engine": "cache", "seed": args.seed, "store_second_chance": n}));
            }
        }
        if n % 10 == 0 {
            if let Some((sig, msg)) = concurrent(&mut report, args.seed, n) {
                report.violation(sig, msg, json!({"engine": "cache", "seed": args.seed, "concurrent": n}));
            }
        }
    }
    report
}
