//! E-fault (C09): I/O failures are reported, contained and never destroy durable data.
//!
//! Parent: enumerates fault plans over the numbered I/O calls of deterministic
//! workloads; each plan runs in a child process (the store keeps a process-wide
//! registry of poisoned files). The child executes the workload under the plan,
//! checks reads and flush results online, and writes out device images (durable
//! prefix / file as it stands) with the admissible state window of every key;
//! the parent recovers each image with the real store and judges it.

use crate::args::Args;
use crate::crashimg::{self, Recipe};
use crate::engines::crash::{recover_image, REAPER};
use crate::engines::layout;
use crate::mon::{hub, Fault, FaultPlan, IoClass};
use crate::report::{hex, Report};
use crate::rng::{fnv, fnv_mix, Rng};
use crate::storeutil::{self, err_name, Cfg};
use crate::values::{self, Tag};
use parking_lot::Mutex;
use serde_json::{json, Value};
use std::collections::BTreeMap;
use std::sync::Arc;

const NOW: u64 = 1_800_000_000_000_000_000;

type KState = Option<(u32, u64)>; // (value seq, timestamp)

#[derive(Clone, Debug)]
enum Step {
    Put(usize, usize), // key index, value length
    Del(usize),
    Flush,
    /// let the periodic flusher / retirement pass run
    Wait(u64),
    /// judge the device as it stands (and its durable prefix) without calling flush
    Probe,
    /// two threads call flush() at the same time (the second 5 ms after the first); an Ok from EITHER of them
    /// acknowledges everything accepted before
    Flush2,
    /// from here on every journal write fails before reaching the device (true) / the run's own plan applies again (false)
    FailJournal(bool),
}

/// workloads 6 and 7 run with several flush workers (keys spread over all shards, background ticks between the
/// steps); their I/O calls cannot be numbered, so they only get class-wide plans
fn multi_worker(id: u64) -> bool {
    id == 6 || id == 7
}

fn workload(id: u64) -> (u64, Vec<Step>, Vec<Step>) {
    // (data blocks, phase A (fault-free, ends with flush), phase B (faulted))
    if id == 5 {
        // io_uring pass only: flush batches of more than 128 record writes (several submission chunks)
        let mut b: Vec<Step> = (0..300).map(|i| Step::Put(i, 60 + i % 7)).collect();
        b.push(Step::Flush);
        b.extend((0..200).map(|i| Step::Put(i * 3 % 300, 90 + i % 5)));
        b.push(Step::Flush);
        return (1024, vec![], b);
    }
    if id == 8 {
        // io_uring pass only: the submission-queue poller is allowed to fall asleep (1.3 s of idleness) before the
        // faulted batch, so that submission entries whose io_uring_enter call failed stay queued for a while. A
        // key is updated (batch fails), deleted, the delete acknowledged; later batches for other keys follow
        let a = vec![Step::Put(0, 300), Step::Put(1, 300), Step::Flush];
        let b = vec![Step::Wait(1300), Step::Put(0, 5000), Step::Flush, Step::Del(0), Step::Flush, Step::Put(2, 300), Step::Flush, Step::Wait(1200), Step::Probe, Step::Put(3, 300), Step::Flush, Step::Probe];
        return (64, a, b);
    }
    if id == 6 {
        // two flushed generations of every key, then replacements whose (multi-block) record writes fail while
        // everything else works; the background passes run between the flush attempts
        let n = 24;
        let mut a: Vec<Step> = (0..n).map(|i| Step::Put(i, 300 + i)).collect();
        a.push(Step::Flush);
        a.extend((0..n).map(|i| Step::Put(i, 330 + i)));
        a.push(Step::Flush);
        let mut b: Vec<Step> = (0..n).map(|i| Step::Put(i, 5000 + i)).collect();
        b.extend([Step::Flush, Step::Wait(350), Step::Probe, Step::Flush2, Step::Wait(250), Step::Probe]);
        return (512, a, b);
    }
    if id == 7 {
        // mixed: small replacements succeed, big ones fail, durable keys are deleted meanwhile
        let n = 48;
        let mut a: Vec<Step> = (0..n).map(|i| Step::Put(i, 200 + i)).collect();
        a.push(Step::Flush);
        a.extend((0..n).filter(|i| i % 2 == 0).map(|i| Step::Put(i, 260 + i)));
        a.push(Step::Flush);
        let mut b: Vec<Step> = Vec::new();
        for i in 0..n {
            b.push(match i % 4 {
                0 => Step::Put(i, 6000 + i),
                1 => Step::Put(i, 100 + i),
                2 => Step::Del(i),
                _ => Step::Put(i, 9000 + i),
            });
            if i % 16 == 15 {
                b.extend([Step::Wait(150), Step::Probe]);
            }
        }
        b.extend([Step::Flush2, Step::Wait(300), Step::Probe, Step::Put(0, 150), Step::Flush, Step::Del(1), Step::Del(5), Step::Del(9), Step::FailJournal(true), Step::Flush2, Step::FailJournal(false), Step::Wait(200), Step::Probe, Step::Flush]);
        return (1024, a, b);
    }
    match id % 5 {
        0 => (64, vec![], vec![Step::Put(0, 100), Step::Put(1, 5000), Step::Put(2, 60), Step::Flush, Step::Put(0, 4200), Step::Del(2), Step::Flush, Step::Put(3, 9000), Step::Flush]),
        1 => (
            64,
            vec![Step::Put(0, 100), Step::Put(1, 200), Step::Put(2, 6000), Step::Put(3, 300), Step::Put(4, 4060), Step::Put(5, 80), Step::Flush],
            vec![Step::Put(0, 5000), Step::Put(2, 50), Step::Flush, Step::Del(1), Step::Del(3), Step::Flush, Step::Put(1, 700), Step::Put(4, 100), Step::Flush],
        ),
        2 => (
            96,
            vec![Step::Put(0, 8000), Step::Put(1, 8000), Step::Flush],
            vec![Step::Del(0), Step::Flush, Step::Put(2, 8000), Step::Flush, Step::Put(1, 100), Step::Put(0, 12000), Step::Flush, Step::Del(2), Step::Del(1), Step::Flush],
        ),
        3 => (
            // nearly full device: allocation failures mix with injected ones
            24,
            vec![Step::Put(0, 12000), Step::Put(1, 12000), Step::Flush],
            vec![Step::Put(2, 12000), Step::Flush, Step::Put(3, 20000), Step::Flush, Step::Del(0), Step::Flush, Step::Put(3, 8000), Step::Flush],
        ),
        _ => (
            64,
            vec![Step::Put(0, 300), Step::Flush],
            vec![Step::Put(0, 301), Step::Flush, Step::Put(0, 302), Step::Flush, Step::Put(0, 4303), Step::Flush, Step::Del(0), Step::Flush, Step::Put(0, 305), Step::Flush],
        ),
    }
}

fn key(i: usize) -> Vec<u8> {
    format!("fk-{i}").into_bytes()
}

fn kid(i: usize) -> u32 {
    (fnv(&key(i)) & 0xffff_ffff) as u32
}

fn plan_from_json(v: &Value) -> FaultPlan {
    let f = |s: &str| if s == "before" { Fault::Before } else { Fault::After };
    let mut plan = FaultPlan::default();
    if let Some(at) = v["at"].as_array() {
        for a in at {
            plan.at.push((a[0].as_u64().unwrap() as u32, f(a[1].as_str().unwrap())));
        }
    }
    if let Some(from) = v["from"].as_array() {
        plan.from = Some((from[0].as_u64().unwrap() as u32, f(from[1].as_str().unwrap())));
    }
    if let Some(c) = v["class"].as_array() {
        let class = match c[0].as_str().unwrap() {
            "meta_write" => IoClass::MetaWrite,
            "journal_write" => IoClass::JournalWrite,
            "data_write" => IoClass::DataWrite,
            "marker_write" => IoClass::MarkerWrite,
            _ => IoClass::Fsync,
        };
        plan.class = Some((class, c[1].as_u64().unwrap() as u32, c[2].as_u64().unwrap() as u32, f(c[3].as_str().unwrap())));
    }
    if let Some(enter) = v["enter"].as_array() {
        for e in enter {
            plan.enter.push((e[0].as_u64().unwrap() as u32, e[1].as_i64().unwrap() as i32));
        }
    }
    if let Some(m) = v["min_len"].as_array() {
        plan.data_min_len = Some((m[0].as_u64().unwrap() as usize, f(m[1].as_str().unwrap())));
    }
    plan
}

/// Child process: run one workload under one plan.
pub fn child(args: &Args) -> ! {
    let wid = args.num("workload", 0);
    let dir = args.get("dir").unwrap().to_string();
    let tag = args.get("tag").unwrap().to_string();
    let plan_json: Value = serde_json::from_str(args.get("plan").unwrap_or("{}")).unwrap();
    let epilogue_only = args.get("epilogue").is_some();
    let path = format!("{dir}/{tag}.feox");
    let (data_blocks, phase_a, phase_b) = workload(wid);
    let uring = args.get("io") == Some("uring");
    let mut cfg = Cfg::disk(16 + data_blocks);
    cfg.sync_io = !uring;
    cfg.cpus = match wid {
        6 => 16,
        7 => 8,
        _ => 2,
    };
    cfg.cache = wid % 2 == 0;
    feoxdb::verif::set_thread_now_ns(NOW);
    let mut out = json!({"workload": wid, "tag": tag});
    if epilogue_only {
        // fresh process after an indeterminate failure: reopen as it stands, flush must work again
        let store = match storeutil::open(&cfg, Some(&path)) {
            Ok(s) => s,
            Err(e) => {
                out["epilogue_error"] = json!(format!("reopen after indeterminate failure failed: {e:?}"));
                finish(&dir, &tag, out);
            }
        };
        let before = storeutil::dump(&store);
        let r1 = store.insert(b"epilogue-key", b"epilogue-value-epilogue-value");
        let r2 = store.flush();
        out["epilogue_insert"] = json!(format!("{:?}", r1.as_ref().map_err(err_name)));
        out["epilogue_flush"] = json!(format!("{:?}", r2.as_ref().map_err(err_name)));
        out["epilogue_dump"] = dump_json(&before);
        let image = std::fs::read(&path).unwrap();
        std::fs::write(format!("{dir}/{tag}.epi.img"), image).unwrap();
        finish(&dir, &tag, out);
    }
    let _ = std::fs::remove_file(&path);
    storeutil::ensure_device(&cfg, &path);
    let base = vec![0u8; (cfg.blocks as usize) * 4096];
    let mon = hub().watch(&path);
    let store = match storeutil::open(&cfg, Some(&path)) {
        Ok(s) => s,
        Err(e) => {
            out["error"] = json!(format!("open: {e:?}"));
            finish(&dir, &tag, out);
        }
    };
    let mut cx = Ctx {
        marks: Vec::new(),
        plan: FaultPlan::default(),
        store: &store,
        mon: &mon,
        base: &base,
        dir: dir.clone(),
        tag: tag.clone(),
        state: BTreeMap::new(),
        values_by: BTreeMap::new(),
        seq: 0,
        snapshots: vec![BTreeMap::new()],
        problems: Vec::new(),
        images: Vec::new(),
        flushes: Vec::new(),
        last_ack_snapshot: 0,
        indeterminate: false,
        img_n: 0,
    };
    for s in &phase_a {
        cx.step(s, false);
        cx.marks.push((mon.len(), cx.snapshots.len() - 1, cx.last_ack_snapshot));
    }
    let phase_b_from = mon.len();
    let calls_before = mon.calls();
    // plan indices are relative to the first I/O call of phase B
    let mut plan = plan_from_json(&plan_json);
    for a in plan.at.iter_mut() {
        a.0 += calls_before;
    }
    if let Some(f) = plan.from.as_mut() {
        f.0 += calls_before;
    }
    plan.uring = uring;
    let enter_before = mon.enter_stats().0;
    for e in plan.enter.iter_mut() {
        e.0 += enter_before;
    }
    cx.plan = plan.clone();
    mon.set_plan(plan);
    if multi_worker(wid) {
        // hold the retirement pass between taking its entries and writing the markers, so that the second of two
        // concurrent flush() calls arrives while the first one's retirements are in flight
        hub().set_sched(Some(Arc::new(crate::mon::SchedCtl::new(wid, 0, 0).target("retire.before_markers", 600, 20_000))));
    }
    out["uses_uring"] = json!(store.verif_uses_uring());
    for s in &phase_b {
        cx.step(s, true);
        cx.marks.push((mon.len(), cx.snapshots.len() - 1, cx.last_ack_snapshot));
        cx.check_reads();
    }
    // crash images of the faulted trace itself: a crash may come at any moment of a run in which writes or fsyncs
    // fail - e.g. while a failed batch is being scrubbed. A sample of cuts (lost / torn in-flight writes as in the
    // crash engine) is judged like the images taken at the flush attempts: reopenable, nothing older than the last
    // acknowledgement before the cut, nothing that was never written
    if !mon.consumed().is_empty() {
        let events = mon.events();
        let mut rng = Rng::derive(wid, events.len() as u64, plan_json.to_string().len() as u64);
        let n = events.len();
        let mut made = 0;
        for _ in 0..24 {
            if made >= 8 || n <= phase_b_from {
                break;
            }
            let c = phase_b_from + rng.usize_below(n - phase_b_from + 1);
            let recipes = crashimg::recipes_for_cut(&events, c, &mut rng, 2, 1);
            let Some(r) = (if recipes.is_empty() { None } else { Some(recipes[rng.usize_below(recipes.len())].clone()) }) else { continue };
            if r.keep.is_empty() && r.tear.is_none() && rng.chance(2, 3) {
                continue; // plain durable prefixes are what the flush-point images already cover
            }
            let lo = cx.marks.iter().rev().find(|m| m.0 <= c).map(|m| m.2).unwrap_or(0);
            let hi = cx.marks.iter().find(|m| m.0 >= c).map(|m| m.1).unwrap_or(cx.snapshots.len() - 1);
            let image = crashimg::build(&base, &events, &r);
            cx.img_n += 1;
            let p = format!("{}/{}.{}.crash.img", dir, tag, cx.img_n);
            std::fs::write(&p, image).unwrap();
            cx.images.push(json!({"path": p, "kind": "crash-image-of-the-faulted-trace", "lo": lo.min(hi), "hi": hi, "faulted": true, "recipe": crashimg::describe(&events, &r)}));
            made += 1;
        }
        out["crash_images_of_faulted_trace"] = json!(made);
    }
    let Ctx { state, values_by, mut snapshots, mut problems, mut images, flushes, mut last_ack_snapshot, mut indeterminate, .. } = cx;
    let consumed = mon.consumed();
    {
        let failed: Vec<u32> = consumed.iter().map(|(i, _, _)| *i).collect();
        match crashimg::journal_discipline(&mon.events(), &failed) {
            Ok(n) => out["journal_writes_checked"] = json!(n),
            Err(e) => problems.push(("fault:journal-discipline".into(), e)),
        }
    }
    let calls_b = mon.calls() - calls_before;
    let classes: Vec<&str> = mon.call_classes().iter().skip(calls_before as usize).map(|c| c.name()).collect();
    // epilogue: faults stop
    mon.clear_plan();
    let mut epilogue_flush = String::new();
    if !indeterminate {
        let mut ok = false;
        let mut last = String::new();
        for _ in 0..3 {
            match store.flush() {
                Ok(()) => {
                    ok = true;
                    break;
                }
                Err(e) => {
                    if let feoxdb::FeoxError::IndeterminateWrite(_) = e {
                        indeterminate = true;
                    }
                    last = err_name(&e);
                }
            }
        }
        epilogue_flush = if ok { "Ok".into() } else { last.clone() };
        if ok {
            snapshots.push(state.clone());
            let snap_idx = snapshots.len() - 1;
            let events = mon.events();
            let durable = crashimg::build(&base, &events, &Recipe { cut: events.len(), keep: vec![], tear: None });
            // C05 / C10 at this acknowledged quiescent point: the persisted counters equal the live totals
            if let Err((sig, msg)) = layout::check_counters(&durable) {
                problems.push((format!("fault:{sig}"), format!("after the device healed and flush() succeeded: {msg}")));
            }
            let p = format!("{dir}/{tag}.final.durable.img");
            std::fs::write(&p, durable).unwrap();
            images.push(json!({"path": p, "kind": "durable-after-healed-flush", "lo": snap_idx, "hi": snap_idx, "faulted": true}));
            // space accounting: everything is either a live extent, free, or a quarantined reservation
            let snap = store.verif_snapshot();
            let quarantined: Vec<(u64, u64)> = Vec::new();
            if let Err((sig, msg)) = layout::check_partition(&snap, 3, &quarantined) {
                problems.push((format!("fault:{sig}"), format!("after the device healed and flush() succeeded: {msg}")));
            }
        } else if !indeterminate && wid % 5 != 3 {
            problems.push(("fault:flush-fails-after-heal".into(), format!("faults stopped, but flush() still fails with {last} (not an indeterminate-write condition)")));
        }
    }
    last_ack_snapshot = last_ack_snapshot.min(snapshots.len() - 1);
    out["calls_phase_b"] = json!(calls_b);
    let (enter_calls, enter_faults) = mon.enter_stats();
    out["enter_calls_phase_b"] = json!(enter_calls - enter_before);
    out["enter_faults"] = json!(enter_faults.iter().map(|(n, e)| json!([n - enter_before, e])).collect::<Vec<_>>());
    let (q, c, ce, leaked, uv) = hub().uring_stats();
    out["uring_buffers"] = json!({"queued": q, "completed": c, "completed_with_error": ce, "left_in_flight": leaked});
    for v in uv {
        problems.push(("fault:inflight-buffer-dropped".into(), v));
    }
    out["call_classes"] = json!(classes);
    out["consumed"] = json!(consumed.iter().map(|(i, c, f)| json!([i - calls_before, c.name(), format!("{f:?}")])).collect::<Vec<_>>());
    out["flushes"] = json!(flushes);
    out["epilogue_flush"] = json!(epilogue_flush);
    out["indeterminate"] = json!(indeterminate);
    out["problems"] = json!(problems.iter().map(|(s, m)| json!([s, m])).collect::<Vec<_>>());
    out["images"] = json!(images);
    out["last_ack_snapshot"] = json!(last_ack_snapshot);
    out["snapshots"] = json!(snapshots.iter().map(|s| s.iter().map(|(k, st)| json!([k, st.map(|x| json!([x.0, x.1]))])).collect::<Vec<_>>()).collect::<Vec<_>>());
    out["values"] = json!(values_by.iter().map(|((k, s), v)| json!([k, s, v.len()])).collect::<Vec<_>>());
    out["trace_shape"] = json!(crashimg::trace_shape(&mon.events()));
    finish(&dir, &tag, out);
}


struct Ctx<'a> {
    /// (device events so far, snapshot index, last acknowledged snapshot) at the end of every step
    marks: Vec<(usize, usize, usize)>,
    plan: FaultPlan,
    store: &'a feoxdb::FeoxStore,
    mon: &'a crate::mon::FileMon,
    base: &'a [u8],
    dir: String,
    tag: String,
    state: BTreeMap<usize, KState>,
    values_by: BTreeMap<(usize, u32), Vec<u8>>,
    seq: u32,
    snapshots: Vec<BTreeMap<usize, KState>>,
    problems: Vec<(String, String)>,
    images: Vec<Value>,
    flushes: Vec<String>,
    last_ack_snapshot: usize,
    indeterminate: bool,
    img_n: u32,
}

impl Ctx<'_> {
    fn step(&mut self, s: &Step, faulted: bool) {
        match s {
            Step::Put(k, len) => {
                self.seq += 1;
                let v = values::make(Tag { key_id: kid(*k), writer: 0, seq: self.seq }, *len);
                match self.store.insert(&key(*k), &v) {
                    Ok(_) => {
                        let ts = self.store.verif_entry(&key(*k)).map(|e| e.timestamp).unwrap_or(0);
                        self.values_by.insert((*k, self.seq), v);
                        self.state.insert(*k, Some((self.seq, ts)));
                    }
                    Err(e) => self.problems.push(("fault:write-rejected".into(), format!("insert({}) failed with {:?}: accepted writes go to memory and must not fail because the device does", hex(&key(*k)), err_name(&e)))),
                }
            }
            Step::Del(k) => {
                if self.state.get(k).copied().flatten().is_some() {
                    match self.store.delete(&key(*k)) {
                        Ok(()) => {
                            self.state.insert(*k, None);
                        }
                        Err(e) => self.problems.push(("fault:delete-rejected".into(), format!("delete failed with {:?}", err_name(&e)))),
                    }
                }
            }
            Step::FailJournal(on) => {
                let mut p = self.plan.clone();
                if *on {
                    p.class = Some((IoClass::JournalWrite, 0, u32::MAX / 2, Fault::Before));
                }
                self.mon.set_plan(p);
                return;
            }
            Step::Wait(ms) => {
                std::thread::sleep(std::time::Duration::from_millis(*ms));
                return;
            }
            Step::Probe => {
                self.snapshots.push(self.state.clone());
                let snap_idx = self.snapshots.len() - 1;
                let events = self.mon.events();
                let cut = events.len();
                let durable = crashimg::build(self.base, &events, &Recipe { cut, keep: vec![], tear: None });
                let all = crashimg::volatile(&events, cut);
                let asis = crashimg::build(self.base, &events, &Recipe { cut, keep: all, tear: None });
                self.img_n += 1;
                let p1 = format!("{}/{}.{}.durable.img", self.dir, self.tag, self.img_n);
                let p2 = format!("{}/{}.{}.asis.img", self.dir, self.tag, self.img_n);
                std::fs::write(&p1, durable).unwrap();
                std::fs::write(&p2, asis).unwrap();
                self.images.push(json!({"path": p1, "kind": "durable-at-probe-after-background-passes", "lo": self.last_ack_snapshot, "hi": snap_idx, "faulted": faulted}));
                self.images.push(json!({"path": p2, "kind": "asis-at-probe-after-background-passes", "lo": self.last_ack_snapshot, "hi": snap_idx, "faulted": faulted}));
                return;
            }
            Step::Flush | Step::Flush2 => {
                let r = if matches!(s, Step::Flush2) {
                    let store = self.store;
                    let (ra, rb) = std::thread::scope(|sc| {
                        let hb = sc.spawn(move || {
                            std::thread::sleep(std::time::Duration::from_millis(5));
                            store.flush()
                        });
                        let ra = store.flush();
                        (ra, hb.join().unwrap_or(Err(feoxdb::FeoxError::InvalidOperation)))
                    });
                    self.flushes.push(format!("concurrent pair: {:?} / {:?}", ra.as_ref().map_err(err_name), rb.as_ref().map_err(err_name)));
                    if ra.is_ok() { ra } else { rb }
                } else {
                    self.store.flush()
                };
                self.flushes.push(format!("{:?}", r.as_ref().map_err(err_name)));
                if let Err(feoxdb::FeoxError::IndeterminateWrite(_)) = &r {
                    self.indeterminate = true;
                }
                self.snapshots.push(self.state.clone());
                let snap_idx = self.snapshots.len() - 1;
                let events = self.mon.events();
                let cut = events.len();
                let durable = crashimg::build(self.base, &events, &Recipe { cut, keep: vec![], tear: None });
                let all = crashimg::volatile(&events, cut);
                let asis = crashimg::build(self.base, &events, &Recipe { cut, keep: all, tear: None });
                self.img_n += 1;
                let p1 = format!("{}/{}.{}.durable.img", self.dir, self.tag, self.img_n);
                let p2 = format!("{}/{}.{}.asis.img", self.dir, self.tag, self.img_n);
                std::fs::write(&p1, durable).unwrap();
                std::fs::write(&p2, asis).unwrap();
                if r.is_ok() {
                    self.last_ack_snapshot = snap_idx;
                    // the same instant under the strict fsync model (what a failed fsync covered is lost unless rewritten)
                    let strict = crashimg::build_strict(self.base, &events, cut);
                    let p3 = format!("{}/{}.{}.strict.img", self.dir, self.tag, self.img_n);
                    std::fs::write(&p3, strict).unwrap();
                    self.images.push(json!({"path": p3, "kind": "strict-durable-after-ok-flush", "lo": snap_idx, "hi": snap_idx, "faulted": faulted}));
                    self.images.push(json!({"path": p1, "kind": "durable-after-ok-flush", "lo": snap_idx, "hi": snap_idx, "faulted": faulted}));
                    self.images.push(json!({"path": p2, "kind": "asis-after-ok-flush", "lo": snap_idx, "hi": snap_idx, "faulted": faulted}));
                } else {
                    self.images.push(json!({"path": p1, "kind": "durable-after-failed-flush", "lo": self.last_ack_snapshot, "hi": snap_idx, "faulted": faulted}));
                    self.images.push(json!({"path": p2, "kind": "asis-after-failed-flush", "lo": self.last_ack_snapshot, "hi": snap_idx, "faulted": faulted}));
                }
                return;
            }
        }
        self.snapshots.push(self.state.clone());
    }

    /// reads keep returning the latest accepted values from memory
    fn check_reads(&mut self) {
        for (k, st) in self.state.clone().iter() {
            let got = self.store.get(&key(*k));
            match (st, got) {
                (Some((sq, _)), Ok(v)) => {
                    if self.values_by.get(&(*k, *sq)) != Some(&v) {
                        self.problems.push(("fault:read-mismatch".into(), format!("get({}) on the faulted store returned {} instead of write #{}", hex(&key(*k)), values::describe(&v), sq)));
                    }
                }
                (None, Err(feoxdb::FeoxError::KeyNotFound)) => {}
                (Some((sq, _)), Err(e)) => self.problems.push((format!("fault:read-failed:{}", err_name(&e)), format!("get({}) failed with {:?} although write #{} was accepted", hex(&key(*k)), err_name(&e), sq))),
                (None, Ok(v)) => self.problems.push(("fault:deleted-key-readable".into(), format!("get({}) returned {} after an accepted delete", hex(&key(*k)), values::describe(&v)))),
                (None, Err(e)) => self.problems.push((format!("fault:read-failed:{}", err_name(&e)), format!("get of deleted key failed with {:?}", err_name(&e)))),
            }
        }
    }
}

fn dump_json(d: &BTreeMap<Vec<u8>, storeutil::Dumped>) -> Value {
    json!(d.iter().map(|(k, v)| json!([String::from_utf8_lossy(k), v.ts, v.value.as_ref().map(|x| values::describe(x)).unwrap_or_else(|e| e.clone())])).collect::<Vec<_>>())
}

fn finish(dir: &str, tag: &str, out: Value) -> ! {
    std::fs::write(format!("{dir}/{tag}.json"), serde_json::to_string(&out).unwrap()).unwrap();
    // no drop: the store may be poisoned / failing, and shutdown behaviour is C18's subject
    std::process::exit(0);
}

/// children use the io_uring write path (SQEs failable, io_uring_enter failable) instead of forced synchronous I/O
static IO_URING: std::sync::atomic::AtomicBool = std::sync::atomic::AtomicBool::new(false);

fn run_child(exe: &str, dir: &str, tag: &str, wid: u64, plan: &Value, epilogue: bool) -> Result<Value, String> {
    let mut cmd = std::process::Command::new(exe);
    cmd.arg("fault-child").args(["--workload", &wid.to_string(), "--dir", dir, "--tag", tag, "--plan", &plan.to_string()]);
    if IO_URING.load(std::sync::atomic::Ordering::Relaxed) {
        cmd.args(["--io", "uring"]);
    }
    if epilogue {
        cmd.args(["--epilogue", "1"]);
    }
    cmd.stdout(std::process::Stdio::null()).stderr(std::process::Stdio::piped());
    let mut child = cmd.spawn().map_err(|e| e.to_string())?;
    let start = std::time::Instant::now();
    loop {
        match child.try_wait() {
            Ok(Some(status)) => {
                if !status.success() {
                    let mut err = String::new();
                    if let Some(mut e) = child.stderr.take() {
                        use std::io::Read;
                        let _ = e.read_to_string(&mut err);
                    }
                    return Err(format!("child exited with {status}: {}", err.chars().rev().take(600).collect::<String>().chars().rev().collect::<String>()));
                }
                break;
            }
            Ok(None) => {
                if start.elapsed().as_secs() > 60 {
                    // the wall clock only raises the question; "hang" needs a signature measured in CPU time:
                    // nobody computes for 2 s (all blocked), or one thread burns >= 8.5 s in 10 s while the rest of
                    // the process is idle (a loop that makes no progress). Otherwise the child is merely slow.
                    let cpu = |pid: u32| crate::engines::live::thread_cpu(pid);
                    let a = cpu(child.id());
                    std::thread::sleep(std::time::Duration::from_secs(2));
                    let b = cpu(child.id());
                    let progressed = b.iter().filter(|(t, (_, c))| a.get(*t).map(|(_, c0)| c0 != c).unwrap_or(true)).count();
                    if progressed == 0 && matches!(child.try_wait(), Ok(None)) {
                        let _ = child.kill();
                        let _ = child.wait();
                        return Err(format!("child timed out after {} s and no thread consumed CPU for 2 s (hang under faults: everybody is blocked)", start.elapsed().as_secs()));
                    }
                    let c0 = cpu(child.id());
                    std::thread::sleep(std::time::Duration::from_secs(10));
                    let c1 = cpu(child.id());
                    let deltas: Vec<u64> = c1.iter().map(|(t, (_, c))| c.saturating_sub(c0.get(t).map(|x| x.1).unwrap_or(*c))).collect();
                    let busy = deltas.iter().filter(|d| **d >= 850).count();
                    let rest: u64 = deltas.iter().filter(|d| **d < 850).sum();
                    if busy == 1 && rest <= 50 && matches!(child.try_wait(), Ok(None)) {
                        let _ = child.kill();
                        let _ = child.wait();
                        return Err(format!("child timed out after {} s with one thread spinning (>= 8.5 s of CPU time in 10 s, everything else idle): hang under faults", start.elapsed().as_secs()));
                    }
                    if start.elapsed().as_secs() > 400 {
                        let _ = child.kill();
                        let _ = child.wait();
                        return Err("slow: child still computing after 400 s (no stall or spin signature)".into());
                    }
                }
                std::thread::sleep(std::time::Duration::from_millis(5));
            }
            Err(e) => return Err(e.to_string()),
        }
    }
    let text = std::fs::read_to_string(format!("{dir}/{tag}.json")).map_err(|e| e.to_string())?;
    serde_json::from_str(&text).map_err(|e| e.to_string())
}

fn judge_image(path: &str, v: &Value, snapshots: &[BTreeMap<usize, KState>], values_len: &BTreeMap<(usize, u32), usize>) -> Result<(), (String, String)> {
    let image = std::fs::read(path).map_err(|e| ("fault:io".to_string(), e.to_string()))?;
    let kind = v["kind"].as_str().unwrap_or("");
    let lo = v["lo"].as_u64().unwrap() as usize;
    let hi = v["hi"].as_u64().unwrap() as usize;
    let rpath = format!("{path}.r");
    let rec = match recover_image(&image, &rpath, 3, false, false) {
        Ok((r, _)) => r,
        Err(e) => return Err((format!("fault:unrecoverable:{kind}"), format!("{kind}: the device cannot be reopened after the failure: {e}"))),
    };
    let nkeys = snapshots.iter().flat_map(|s| s.keys().copied()).max().map(|m| m + 1).unwrap_or(0).max(8);
    for k in 0..nkeys {
        let got: KState = match rec.dump.get(&key(k)) {
            None => None,
            Some(d) => match &d.value {
                Ok(bytes) => match values::check(bytes) {
                    Ok(tag) if tag.key_id == kid(k) && values_len.get(&(k, tag.seq)) == Some(&bytes.len()) => Some((tag.seq, d.ts)),
                    _ => return Err((format!("fault:corrupt-value:{kind}"), format!("{kind}: key {} recovered with bytes that are not a value written to it: {}", hex(&key(k)), values::describe(bytes)))),
                },
                Err(e) => return Err((format!("fault:unreadable:{kind}"), format!("{kind}: key {} unreadable after recovery: {e}", hex(&key(k))))),
            },
        };
        let admissible = (lo..=hi).any(|t| snapshots[t].get(&k).copied().flatten() == got);
        if !admissible {
            let sig = if kind.contains("ok-flush") || kind.contains("healed") { format!("fault:flush-ok-but-not-durable:{kind}") } else { format!("fault:durable-data-destroyed:{kind}") };
            return Err((
                sig,
                format!("{kind}: key {} recovers to {:?} but the admissible states (snapshots {lo}..={hi}) are {:?}", hex(&key(k)), got, (lo..=hi).map(|t| snapshots[t].get(&k).copied().flatten()).collect::<Vec<_>>()),
            ));
        }
    }
    for k in rec.dump.keys() {
        if !(0..nkeys).any(|i| key(i) == *k) && k != b"epilogue-key" {
            return Err((format!("fault:ghost-key:{kind}"), format!("{kind}: unknown key {} after recovery", hex(k))));
        }
    }
    Ok(())
}

pub fn run(args: &Args) -> Report {
    let mut report = Report::new(
        "fault",
        "multi-worker workloads 6-7 (8 / 4 flush workers, keys on every shard, two flushed generations, then replacements whose multi-block record writes - or all data / all marker writes - fail, deletes of durable keys meanwhile, background ticks between the attempts, the device judged as it stands at probes without a flush); deterministic single-worker synchronous-I/O workloads (first write on a fresh device, updates of durable keys across size classes, delete/recreate with extent reuse, nearly-full device, repeated rewrites of one key); the I/O calls (every pwrite and fsync) of the faulted phase are numbered and fault plans are enumerated: every single call x {fail before, fail after the bytes/fsync reached the device}, seeded pairs, persistent failure from each call on, per-class bursts of 1-3 consecutive failures. Each plan runs in its own process; online: every get equals the model, writes are never refused; after every flush attempt the durable-prefix image and the file as it stands are recovered by the real store in a fresh process and each key must lie in [last acknowledged state, latest state] (exactly the model after an Ok flush); after faults stop flush must succeed (or, after an indeterminate failure, after reopening) and make everything durable. After an Ok flush the image is also built under the strict fsync model (a failed fsync may have dropped the dirty pages it covered: only writes issued again count). distinct non-trivial = plans whose fault was actually consumed, by (workload, call class, mode, flush outcome pattern)",
    );
    let thorough = args.thorough();
    let uring = args.get("io") == Some("uring");
    IO_URING.store(uring, std::sync::atomic::Ordering::Relaxed);
    if uring {
        report.rule = format!("[io_uring write path: record batches go through SQEs (an injected failure makes the kernel complete the SQE with EBADF) and io_uring_enter can be made to fail with EINTR (retried) or EIO (indeterminate outcome); the monitor also follows every buffer handed to the kernel: the I/O layer must not drop its reference before the completion is reaped] {}", report.rule);
    }
    let shard = args.num("shard", 0);
    let shards = args.num("shards", 1).max(1);
    let exe = std::env::current_exe().unwrap().to_string_lossy().to_string();
    let scratch = storeutil::Scratch(storeutil::scratch_dir(&format!("fault{shard}")));
    let dir = scratch.0.clone();
    // baseline: number the calls
    let mut plans: Vec<(u64, Value)> = Vec::new();
    let mut rng = Rng::derive(args.seed, shard, 0xfa17);
    for wid in 0..(if uring { 6u64 } else { 5 }) {
        let base = match run_child(&exe, &dir, &format!("base{wid}"), wid, &json!({}), false) {
            Ok(v) => v,
            Err(e) => {
                report.inconclusive.push(format!("baseline child failed: {e}"));
                continue;
            }
        };
        let n = base["calls_phase_b"].as_u64().unwrap_or(0);
        if uring {
            if base["uses_uring"].as_bool() != Some(true) {
                report.inconclusive.push(format!("workload {wid}: the store did not take the io_uring path in this environment"));
                continue;
            }
            let e = base["enter_calls_phase_b"].as_u64().unwrap_or(0);
            report.count("baseline_uring_enter_calls", e);
            for i in 0..e {
                plans.push((wid, json!({"enter": [[i, 4]]})));
                plans.push((wid, json!({"enter": [[i, 4], [i + 1, 4], [i + 2, 4]]})));
                plans.push((wid, json!({"enter": [[i, 5]]})));
                plans.push((wid, json!({"enter": [[i, 11], [i + 1, 11], [i + 2, 11]]})));
                plans.push((wid, json!({"at": [[(i * 7) % n.max(1), "before"]], "enter": [[i, 4]]})));
            }
        }
        report.count("baseline_io_calls", n);
        if !base["problems"].as_array().map(|a| a.is_empty()).unwrap_or(true) {
            report.violation("fault:baseline", format!("fault-free run reports problems: {}", base["problems"]), json!({"engine": "fault", "workload": wid}));
        }
        for c in base["call_classes"].as_array().cloned().unwrap_or_default() {
            report.count(&format!("baseline_calls_{}", c.as_str().unwrap_or("")), 1);
        }
        if wid == 5 {
            // hundreds of I/O calls: a sample of single failures spread over all submission chunks
            let stride = if thorough { 3 } else { 11 };
            for i in (0..n).filter(|i| i % stride == 0 || *i < 6) {
                plans.push((wid, json!({"at": [[i, "before"]]})));
            }
            for i in (0..n).filter(|i| i % (stride * 5) == 1) {
                plans.push((wid, json!({"at": [[i, "before"], [(i + 140).min(n - 1), "before"]]})));
            }
            continue;
        }
        for i in 0..n {
            plans.push((wid, json!({"at": [[i, "before"]]})));
            plans.push((wid, json!({"at": [[i, "after"]]})));
            if thorough || i % 3 == 0 {
                plans.push((wid, json!({"from": [i, if i % 2 == 0 { "before" } else { "after" }]})));
            }
        }
        let pairs = if thorough { 400 } else { 40 };
        for _ in 0..pairs {
            if n < 2 {
                break;
            }
            let a = rng.below(n);
            let b = (a + 1 + rng.below(6)).min(n - 1);
            let m = |r: &mut Rng| if r.chance(1, 2) { "before" } else { "after" };
            plans.push((wid, json!({"at": [[a, m(&mut rng)], [b, m(&mut rng)]]})));
        }
        for class in ["journal_write", "data_write", "marker_write", "meta_write", "fsync"] {
            for start in 0..(if thorough { 6 } else { 3 }) {
                for count in 1..=3u64 {
                    plans.push((wid, json!({"class": [class, start, count, if (start + count) % 2 == 0 { "before" } else { "after" }]})));
                }
            }
        }
    }
    if uring {
        let wid = 8u64;
        match run_child(&exe, &dir, &format!("base{wid}"), wid, &json!({}), false) {
            Ok(base) if base["uses_uring"].as_bool() == Some(true) => {
                if !base["problems"].as_array().map(|a| a.is_empty()).unwrap_or(true) {
                    report.violation("fault:baseline", format!("fault-free run reports problems: {}", base["problems"]), json!({"engine": "fault", "workload": wid}));
                }
                let e = base["enter_calls_phase_b"].as_u64().unwrap_or(0);
                for i in 0..e.min(6) {
                    // the three attempts of one batch all see the same transient-looking errno
                    plans.push((wid, json!({"enter": [[i, 11], [i + 1, 11], [i + 2, 11]]})));
                    plans.push((wid, json!({"enter": [[i, 16], [i + 1, 16], [i + 2, 16]]})));
                    plans.push((wid, json!({"enter": [[i, 12]]})));
                }
            }
            Ok(_) => report.inconclusive.push("workload 8: the store did not take the io_uring path in this environment".into()),
            Err(e) => report.inconclusive.push(format!("baseline child failed: {e}")),
        }
    }
    // multi-worker workloads: class-wide plans only (their calls cannot be numbered); repeated, since the
    // interleaving of workers and background ticks differs from run to run
    for wid in [6u64, 7] {
        match run_child(&exe, &dir, &format!("base{wid}"), wid, &json!({}), false) {
            Ok(base) => {
                if !base["problems"].as_array().map(|a| a.is_empty()).unwrap_or(true) {
                    report.violation("fault:baseline", format!("fault-free run reports problems: {}", base["problems"]), json!({"engine": "fault", "workload": wid}));
                }
            }
            Err(e) => {
                report.inconclusive.push(format!("baseline child failed: {e}"));
                continue;
            }
        }
        for _rep in 0..(if thorough { 12 } else { 2 }) {
            plans.push((wid, json!({"min_len": [4097, "before"]})));
            plans.push((wid, json!({"min_len": [4097, "after"]})));
            plans.push((wid, json!({"class": ["data_write", 0, 1_000_000, "before"]})));
            plans.push((wid, json!({"class": ["marker_write", 0, 1_000_000, "before"]})));
            plans.push((wid, json!({"class": ["fsync", 2, 3, "before"]})));
        }
    }
    let plans: Vec<(usize, (u64, Value))> = plans.into_iter().enumerate().filter(|(i, _)| *i as u64 % shards == shard).collect();
    report.count("fault_plans", plans.len() as u64);
    let queue = Arc::new(Mutex::new(plans));
    let merged = Arc::new(Mutex::new(Report::new("fault", "")));
    let threads = args.num("threads", 16) as usize;
    let mut handles = Vec::new();
    for _ in 0..threads {
        let (queue, merged, exe, dir) = (queue.clone(), merged.clone(), exe.clone(), dir.clone());
        let seed = args.seed;
        handles.push(std::thread::spawn(move || {
            let mut local = Report::new("fault", "");
            loop {
                let Some((idx, (wid, plan))) = queue.lock().pop() else { break };
                let tag = format!("p{idx}");
                local.evaluations += 1;
                let replay = |extra: Value| json!({"engine": "fault", "seed": seed, "workload": wid, "plan": plan, "detail": extra});
                let res = match run_child(&exe, &dir, &tag, wid, &plan, false) {
                    Ok(v) => v,
                    Err(e) => {
                        if e.starts_with("slow:") {
                            local.inconclusive.push(format!("workload {wid} under plan {plan}: {e}"));
                        } else if e.contains("timed out") {
                            local.violation("fault:hang", format!("workload {wid} under plan {plan}: {e}"), replay(json!(null)));
                        } else {
                            local.violation("fault:child-crashed", format!("workload {wid} under plan {plan}: {e}"), replay(json!(null)));
                        }
                        continue;
                    }
                };
                let consumed = res["consumed"].as_array().cloned().unwrap_or_default();
                let flushes: Vec<String> = res["flushes"].as_array().map(|a| a.iter().map(|x| x.as_str().unwrap_or("").to_string()).collect()).unwrap_or_default();
                let enter_faults = res["enter_faults"].as_array().cloned().unwrap_or_default();
                if !enter_faults.is_empty() {
                    local.count("plans_with_enter_fault_delivered", 1);
                    let kinds: String = enter_faults.iter().map(|e| format!("e{}", e[1])).collect::<Vec<_>>().join("+");
                    local.nontrivial.insert(fnv_mix(fnv_mix(wid, fnv(kinds.as_bytes())), fnv(flushes.join(",").as_bytes())));
                    for e in &enter_faults {
                        local.count(&format!("enter_fault_errno_{}", e[1]), 1);
                    }
                }
                local.count("journal_writes_checked_against_the_slot_discipline", res["journal_writes_checked"].as_u64().unwrap_or(0));
                if let Some(u) = res["uring_buffers"].as_object() {
                    for (k, v) in u {
                        local.count(&format!("uring_buffers_{k}"), v.as_u64().unwrap_or(0));
                    }
                }
                if !consumed.is_empty() {
                    local.count("plans_with_fault_consumed", 1);
                    let classes: String = consumed.iter().map(|c| format!("{}{}", c[1].as_str().unwrap_or(""), c[2].as_str().unwrap_or(""))).collect::<Vec<_>>().join("+");
                    local.nontrivial.insert(fnv_mix(fnv_mix(wid, fnv(classes.as_bytes())), fnv(flushes.join(",").as_bytes())));
                    for c in &consumed {
                        local.count(&format!("consumed_{}", c[1].as_str().unwrap_or("")), 1);
                    }
                }
                for f in &flushes {
                    local.count(&format!("flush_result_{}", f.replace(['(', ')', '"'], "_")), 1);
                }
                if res["indeterminate"].as_bool().unwrap_or(false) {
                    local.count("indeterminate_outcomes", 1);
                }
                for p in res["problems"].as_array().cloned().unwrap_or_default() {
                    local.violation(p[0].as_str().unwrap_or("fault:problem").to_string(), format!("workload {wid}, plan {plan}: {}", p[1].as_str().unwrap_or("")), replay(json!({"flushes": flushes, "consumed": consumed, "trace": res["trace_shape"]})));
                }
                // snapshots
                let snapshots: Vec<BTreeMap<usize, KState>> = res["snapshots"]
                    .as_array()
                    .map(|a| {
                        a.iter()
                            .map(|s| s.as_array().unwrap().iter().map(|e| (e[0].as_u64().unwrap() as usize, e[1].as_array().map(|x| (x[0].as_u64().unwrap() as u32, x[1].as_u64().unwrap())))).collect())
                            .collect()
                    })
                    .unwrap_or_default();
                let values_len: BTreeMap<(usize, u32), usize> = res["values"].as_array().map(|a| a.iter().map(|e| ((e[0].as_u64().unwrap() as usize, e[1].as_u64().unwrap() as u32), e[2].as_u64().unwrap() as usize)).collect()).unwrap_or_default();
                for img in res["images"].as_array().cloned().unwrap_or_default() {
                    let path = img["path"].as_str().unwrap().to_string();
                    local.count("images_recovered", 1);
                    if let Err((sig, msg)) = judge_image(&path, &img, &snapshots, &values_len) {
                        local.violation(sig, format!("workload {wid}, plan {plan}: {msg}"), replay(json!({"flushes": flushes, "consumed": consumed, "trace": res["trace_shape"]})));
                    }
                    let _ = std::fs::remove_file(&path);
                }
                // indeterminate failure: a fresh process must be able to reopen the file as it stands and flush again
                if res["indeterminate"].as_bool().unwrap_or(false) {
                    match run_child(&exe, &dir, &tag, wid, &plan, true) {
                        Ok(epi) => {
                            if let Some(e) = epi["epilogue_error"].as_str() {
                                local.violation("fault:reopen-after-indeterminate-failed", format!("workload {wid}, plan {plan}: {e}"), replay(json!(null)));
                            } else if epi["epilogue_flush"].as_str() != Some("Ok(())") {
                                local.violation("fault:flush-fails-after-reopen", format!("workload {wid}, plan {plan}: after reopening in a fresh process flush() answers {}", epi["epilogue_flush"]), replay(json!(null)));
                            } else {
                                local.count("indeterminate_reopen_ok", 1);
                                // what the reopened store exposed must lie in the window [last ack, latest]
                                let lo = res["last_ack_snapshot"].as_u64().unwrap_or(0) as usize;
                                let img = json!({"kind": "asis-reopened-after-indeterminate", "lo": lo, "hi": snapshots.len() - 1});
                                let p = format!("{dir}/{tag}.epi.img");
                                if let Err((sig, msg)) = judge_image(&p, &img, &snapshots, &values_len) {
                                    local.violation(sig, format!("workload {wid}, plan {plan}: {msg}"), replay(json!(null)));
                                }
                                let _ = std::fs::remove_file(&p);
                            }
                        }
                        Err(e) => local.violation("fault:epilogue-child", format!("workload {wid}, plan {plan}: {e}"), replay(json!(null))),
                    }
                } else if res["epilogue_flush"].as_str() == Some("Ok") {
                    local.count("healed_flush_ok", 1);
                }
                if local.samples.is_empty() && !consumed.is_empty() {
                    local.sample(json!({"workload": wid, "plan": plan, "consumed": consumed, "flush_results": flushes, "trace_shape": res["trace_shape"], "indeterminate": res["indeterminate"]}));
                }
                let _ = std::fs::remove_file(format!("{dir}/{tag}.feox"));
                let _ = std::fs::remove_file(format!("{dir}/{tag}.json"));
            }
            merged.lock().merge(local);
        }));
    }
    for h in handles {
        if h.join().is_err() {
            report.inconclusive.push("HARNESS-PANIC: a fault worker thread panicked (its results are lost)".into());
        }
    }
    REAPER.wait();
    let m = Arc::try_unwrap(merged).ok().unwrap().into_inner();
    report.merge(m);
    report
}
