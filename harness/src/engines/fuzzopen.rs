//! E-fuzzopen (C17): opening arbitrary or damaged files fails cleanly.
//! Images are synthesised by the independent codec (valid v1/v2/v3 devices with
//! records, markers, journal states), then mutated: random bytes, bit flips biased
//! to structure, block-level edits, size edits, and structure-aware forgeries with
//! recomputed checksums/tokens. Children open them under catch_unwind; the parent
//! watches for aborts and hangs.

use crate::args::Args;
use crate::indep::{self, BLOCK};
use crate::report::Report;
use crate::rng::{fnv, fnv_mix, Rng};
use crate::storeutil::{self, err_name};
use serde_json::{json, Value};
use std::io::Write;
use std::sync::atomic::{AtomicU64, Ordering};
use std::sync::Arc;
use std::time::{Duration, Instant};

struct Synth {
    image: Vec<u8>,
    version: u32,
    /// (sector, blocks) of records placed
    records: Vec<(u64, u64, Vec<u8>)>,
}

fn synth(rng: &mut Rng) -> Synth {
    let version = *rng.pick(&[3u32, 3, 3, 2, 1]);
    let blocks = *rng.pick(&[17u64, 18, 24, 32, 64, 128]);
    let mut image = indep::fresh_image(version, blocks);
    let mut sector = 16u64;
    let mut records = Vec::new();
    let mut n = 0;
    while sector + 1 < blocks {
        match rng.below(6) {
            0 => sector += 1, // leave a zero block
            1 => {
                // retired extent with complete markers
                let len = rng.range(1, 3).min(blocks - 1 - sector);
                for i in 0..len {
                    let m = indep::encode_marker(sector + i, len - i, 1);
                    image[(sector + i) as usize * BLOCK..(sector + i + 1) as usize * BLOCK].copy_from_slice(&m);
                }
                sector += len;
            }
            _ => {
                n += 1;
                let key = format!("fz-{n}").into_bytes();
                let vlen = *rng.pick(&[1usize, 30, 4000, 4066, 5000, 9000]);
                let value = rng.bytes(vlen);
                // now and then a record carries an extreme version: the largest timestamp, its neighbour, the sign bit
                let ts = if rng.chance(1, 10) { *rng.pick(&[u64::MAX, u64::MAX - 1, (1u64 << 63) + 1]) } else { 1_700_000_000_000_000_000 + rng.below(1000) };
                let expiry = if version >= 2 && rng.chance(1, 4) { 4_000_000_000_000_000_000 + rng.below(1000) } else { 0 };
                let rec = indep::encode_record(version, &key, &value, ts, expiry, sector);
                let nb = (rec.len() / BLOCK) as u64;
                if sector + nb > blocks - 1 {
                    break;
                }
                image[sector as usize * BLOCK..(sector + nb) as usize * BLOCK].copy_from_slice(&rec);
                records.push((sector, nb, key));
                sector += nb;
            }
        }
    }
    // journal: none / clear / active over a free range
    match rng.below(4) {
        0 => {}
        1 => {
            let j = indep::encode_journal(rng.range(1, 50), &[], 2);
            image[BLOCK..BLOCK + j.len()].copy_from_slice(&j);
        }
        2 => {
            let j = indep::encode_journal(rng.range(1, 50), &[(blocks - 1, 1)], 2);
            image[BLOCK..BLOCK + j.len()].copy_from_slice(&j);
        }
        _ => {
            let j = indep::encode_journal(rng.range(1, 50), &[], 2);
            image[4 * BLOCK..4 * BLOCK + j.len()].copy_from_slice(&j);
        }
    }
    Synth { image, version, records }
}

fn put_u64(image: &mut [u8], off: usize, v: u64) {
    if off + 8 <= image.len() {
        image[off..off + 8].copy_from_slice(&v.to_le_bytes());
    }
}

/// Returns (mutator name, mutated image).
fn mutate(s: &Synth, rng: &mut Rng) -> (&'static str, Vec<u8>) {
    let mut img = s.image.clone();
    let blocks = img.len() / BLOCK;
    let version = s.version;
    let pick_record = |rng: &mut Rng| -> Option<(u64, u64, Vec<u8>)> { if s.records.is_empty() { None } else { Some(rng.pick(&s.records).clone()) } };
    match rng.below(24) {
        0 => ("valid", img),
        23 => {
            // an otherwise valid device whose newest journal slot is ACTIVE, well-formed, correctly checksummed and
            // carries the last possible generation: the replay could never be cleared (no generation left), so
            // the open has to be refused - for a bookkeeping (metadata) reason, whatever error code it uses -
            // before any marker is written over the journaled extents (which here hold live records)
            let ext: Vec<(u64, u64)> = match pick_record(rng) {
                Some((sector, nb, _)) => vec![(sector, nb)],
                None => vec![(rng.range(16, blocks as u64 - 1), 1)],
            };
            let j = indep::encode_journal(u64::MAX, &ext, *rng.pick(&[1u32, 2]));
            let slot = rng.usize_below(2);
            let off = (1 + slot * 3) * BLOCK;
            let n = j.len().min(3 * BLOCK);
            img[off..off + n].copy_from_slice(&j[..n]);
            ("journal-generation-exhausted", img)
        }
        22 => {
            // no signature at all; the only content sits in the last third of the file (written sparsely, so the
            // file has a long leading hole): not a FeOx device, must be rejected untouched
            let from = (blocks * 2 / 3).max(17) * BLOCK;
            let keep = img[from..].to_vec();
            img.fill(0);
            if keep.iter().all(|b| *b == 0) {
                let n = img.len();
                let garbage = rng.bytes(64);
                img[n - 4096..n - 4096 + 64].copy_from_slice(&garbage);
            } else {
                img[from..].copy_from_slice(&keep);
            }
            ("sparse-content-in-tail-only", img)
        }
        1 => {
            let n = *rng.pick(&[16usize, 17, 20, 33]);
            ("random-bytes", rng.bytes(n * BLOCK))
        }
        2 => {
            for _ in 0..rng.range(1, 12) {
                let i = rng.usize_below(img.len());
                img[i] ^= 1 << rng.below(8);
            }
            ("bit-flips-anywhere", img)
        }
        3 => {
            // flips in block heads / metadata / journal
            for _ in 0..rng.range(1, 6) {
                let b = match rng.below(3) {
                    0 => *rng.pick(&[0usize, 7]),
                    1 => rng.range(1, 6) as usize,
                    _ => rng.range(16, blocks as u64 - 1) as usize,
                };
                let i = b * BLOCK + rng.usize_below(64);
                img[i] ^= 1 << rng.below(8);
            }
            ("bit-flips-in-heads", img)
        }
        4 => {
            let a = rng.range(16, blocks as u64 - 1) as usize;
            let b = rng.range(16, blocks as u64 - 1) as usize;
            for i in 0..BLOCK {
                img.swap(a * BLOCK + i, b * BLOCK + i);
            }
            ("block-swap", img)
        }
        5 => {
            let a = rng.range(16, blocks as u64 - 1) as usize;
            let b = rng.range(16, blocks as u64 - 1) as usize;
            let src = img[a * BLOCK..(a + 1) * BLOCK].to_vec();
            img[b * BLOCK..(b + 1) * BLOCK].copy_from_slice(&src);
            ("block-duplicate", img)
        }
        6 => {
            let b = rng.range(0, blocks as u64 - 1) as usize;
            img[b * BLOCK..(b + 1) * BLOCK].fill(0);
            ("block-zero", img)
        }
        7 => {
            let newlen = match rng.below(5) {
                0 => 16 * BLOCK,
                1 => 15 * BLOCK,
                2 => img.len() - rng.range(1, 4095) as usize,
                3 => img.len() + 1,
                _ => (blocks - 1).max(1) * BLOCK,
            };
            img.resize(newlen, 0);
            ("size-change", img)
        }
        8 | 9 => {
            // forged record head with recomputed token
            if let Some((sector, _nb, key)) = pick_record(rng) {
                let off = sector as usize * BLOCK;
                let vl_off = off + 6 + key.len();
                match rng.below(6) {
                    0 => put_u64(&mut img, vl_off, 0),
                    1 => put_u64(&mut img, vl_off, 1 << 32),
                    2 => put_u64(&mut img, vl_off, 1 << 63),
                    3 => put_u64(&mut img, vl_off, u64::MAX),
                    4 => put_u64(&mut img, vl_off, (blocks as u64) * 4096), // extent crossing the device end
                    _ => {
                        let kl = *rng.pick(&[0u16, 4066, 4067, 4090, 65535]);
                        img[off + 4..off + 6].copy_from_slice(&kl.to_le_bytes());
                    }
                }
                if version >= 3 {
                    // token over the head block only (the declared extent may be absurd)
                    let t = indep::record_token(sector, &img[off..off + BLOCK]);
                    img[off + 2..off + 4].copy_from_slice(&t.to_le_bytes());
                }
            }
            ("forged-record-lengths", img)
        }
        10 => {
            // record whose declared extent is consistent and token valid, but value_len makes it multi-block into other records
            if let Some((sector, _nb, key)) = pick_record(rng) {
                let off = sector as usize * BLOCK;
                let vl_off = off + 6 + key.len();
                let span = rng.range(2, 6).min(blocks as u64 - sector);
                let vl = span * 4096 - indep::header_len(version, key.len()) as u64;
                put_u64(&mut img, vl_off, vl);
                if version >= 3 {
                    let t = indep::record_token(sector, &img[off..off + span as usize * BLOCK]);
                    img[off + 2..off + 4].copy_from_slice(&t.to_le_bytes());
                }
            }
            ("forged-record-swallows-neighbours", img)
        }
        11 | 12 => {
            // forged marker
            let sector = rng.range(16, blocks as u64 - 1);
            let remaining = match rng.below(5) {
                0 => 0,
                1 => u64::MAX,
                2 => u64::MAX - sector + 1,
                3 => blocks as u64 - sector + 1,
                _ => rng.range(1, blocks as u64),
            };
            let m = indep::encode_marker(sector, remaining, *rng.pick(&[0u8, 1, 2, 255]));
            img[sector as usize * BLOCK..(sector as usize + 1) * BLOCK].copy_from_slice(&m);
            ("forged-marker", img)
        }
        13 => {
            // legacy ambiguous marker (tag + zeros)
            let sector = rng.range(16, blocks as u64 - 1) as usize;
            img[sector * BLOCK..(sector + 1) * BLOCK].fill(0);
            img[sector * BLOCK..sector * BLOCK + 8].copy_from_slice(indep::MARKER_TAG);
            ("legacy-marker", img)
        }
        14 | 15 => {
            // forged journal with valid checksum
            let ext: Vec<(u64, u64)> = match rng.below(6) {
                0 => vec![(15, 1)],
                1 => vec![(blocks as u64 - 1, 2)],
                2 => vec![(20, 4), (22, 4)],
                3 => (0..1025).map(|i| (16 + i, 1)).collect(),
                4 => vec![(16, u32::MAX as u64)],
                _ => vec![(rng.range(16, blocks as u64 - 1), 1)],
            };
            let generation = *rng.pick(&[1u64, 2, u64::MAX, u64::MAX - 1]);
            let jv = *rng.pick(&[1u32, 2, 2, 3]);
            let mut j = indep::encode_journal(generation, &ext[..ext.len().min(1025)], jv.min(2));
            if jv == 3 {
                j[8..12].copy_from_slice(&3u32.to_le_bytes());
            }
            // header fields that lie: the claimed entry count / state / generation are overwritten after
            // the checksum was computed (checksum and complement stay a consistent pair), or the checksum
            // is recomputed over as much of the slot as the claimed count still allows
            if rng.chance(1, 3) {
                let count = *rng.pick(&[1025u32, 1531, 1532, 1533, 2048, 4096, 65535, 1 << 20, 1 << 28, u32::MAX]);
                j.resize(3 * BLOCK, 0);
                match rng.below(4) {
                    0 => j[28..32].copy_from_slice(&count.to_le_bytes()),
                    1 => {
                        j[28..32].copy_from_slice(&count.to_le_bytes());
                        j[24..28].copy_from_slice(&1u32.to_le_bytes());
                    }
                    2 => j[24..28].copy_from_slice(&rng.pick(&[2u32, 3, u32::MAX]).to_le_bytes()),
                    _ => j[16..24].copy_from_slice(&0u64.to_le_bytes()),
                }
                if rng.chance(1, 2) {
                    let claimed = u32::from_le_bytes(j[28..32].try_into().unwrap()) as usize;
                    let len = (40 + claimed.saturating_mul(8)).min(j.len());
                    j[12..16].fill(0);
                    j[32..36].fill(0);
                    let c = indep::journal_checksum(&j[..len]);
                    j[12..16].copy_from_slice(&c.to_le_bytes());
                    j[32..36].copy_from_slice(&(!c).to_le_bytes());
                }
            }
            let slot = rng.usize_below(2);
            let off = (1 + slot * 3) * BLOCK;
            let n = j.len().min(3 * BLOCK);
            img[off..off + n].copy_from_slice(&j[..n]);
            ("forged-journal", img)
        }
        16 | 17 => {
            // forged metadata with valid checksum
            let mut m = indep::decode_meta(&img[..BLOCK]).unwrap_or(indep::Meta { version, total_records: 0, total_size: 0, device_size: img.len() as u64, block_size: 4096, fragmentation: 0, creation_time: 1, last_update_time: 1, generation: Some(1) });
            match rng.below(7) {
                0 => m.version = 0,
                1 => m.version = 4,
                2 => m.device_size = img.len() as u64 * 2,
                3 => m.device_size = 4096,
                4 => m.generation = Some(u64::MAX),
                5 => m.total_records = u64::MAX,
                _ => m.block_size = 512,
            }
            if m.generation.is_none() && rng.chance(1, 2) {
                m.generation = Some(rng.range(1, 10));
            }
            let b = indep::encode_meta(&m);
            let which = rng.below(3);
            if which != 1 {
                img[..BLOCK].copy_from_slice(&b);
            }
            if which != 0 {
                img[7 * BLOCK..8 * BLOCK].copy_from_slice(&b);
            }
            ("forged-metadata", img)
        }
        18 => {
            // signature destroyed on non-empty content
            img[..8].copy_from_slice(b"NOTFEOX!");
            img[7 * BLOCK..7 * BLOCK + 8].copy_from_slice(b"NOTFEOX!");
            ("bad-signature", img)
        }
        19 => {
            img[..BLOCK].fill(0);
            img[7 * BLOCK..8 * BLOCK].fill(0);
            ("metadata-zeroed", img)
        }
        20 => {
            // truncated extent: cut the tail blocks of a multi-block record to zero
            if let Some((sector, nb, _)) = s.records.iter().find(|r| r.1 > 1).cloned() {
                let from = (sector + 1) as usize * BLOCK;
                let to = (sector + nb) as usize * BLOCK;
                img[from..to].fill(0);
            }
            ("extent-tail-zeroed", img)
        }
        _ => {
            // random garbage over a random range of the data area
            let a = rng.range(16, blocks as u64 - 1) as usize * BLOCK;
            let n = rng.range(1, 9000) as usize;
            let end = (a + n).min(img.len());
            let garbage = rng.bytes(end - a);
            img[a..end].copy_from_slice(&garbage);
            ("garbage-range", img)
        }
    }
}

static PANICS: AtomicU64 = AtomicU64::new(0);
static REAPERS: parking_lot::Mutex<Vec<std::thread::JoinHandle<()>>> = parking_lot::Mutex::new(Vec::new());

pub fn child(args: &Args) -> ! {
    let dir = args.get("dir").unwrap().to_string();
    let from = args.num("from", 0);
    let to = args.num("to", 0);
    let tag = args.get("tag").unwrap_or("c").to_string();
    let mut log = std::fs::File::create(format!("{dir}/{tag}.log")).unwrap();
    let panic_msgs: Arc<parking_lot::Mutex<Vec<String>>> = Arc::new(parking_lot::Mutex::new(Vec::new()));
    {
        let pm = panic_msgs.clone();
        std::panic::set_hook(Box::new(move |info| {
            PANICS.fetch_add(1, Ordering::SeqCst);
            pm.lock().push(format!("thread {:?}: {}", std::thread::current().name(), info));
        }));
    }
    for i in from..to {
        let mut rng = Rng::derive(args.seed, i, 0xf022);
        let s = synth(&mut rng);
        let (mutator, image) = mutate(&s, &mut rng);
        let path = format!("{dir}/{tag}-{i}.feox");
        // a third of the images (and always the one whose content is in its tail only) are written sparsely:
        // holes instead of zero blocks, which the store's "is this file empty?" probe treats differently
        if mutator == "sparse-content-in-tail-only" || rng.chance(1, 3) {
            use std::os::unix::fs::FileExt;
            let f = std::fs::File::create(&path).unwrap();
            f.set_len(image.len() as u64).unwrap();
            for (b, chunk) in image.chunks(BLOCK).enumerate() {
                if chunk.iter().any(|x| *x != 0) {
                    f.write_all_at(chunk, (b * BLOCK) as u64).unwrap();
                }
            }
            f.sync_all().unwrap();
        } else {
            std::fs::write(&path, &image).unwrap();
        }
        writeln!(log, "{{\"start\": {i}, \"mutator\": \"{mutator}\"}}").unwrap();
        log.flush().unwrap();
        let before = fnv(&image);
        let both_sigs_bad = image.len() >= 8 * BLOCK && &image[..8] != b"FEOX_SIG" && &image[7 * BLOCK..7 * BLOCK + 8] != b"FEOX_SIG" && image.iter().any(|b| *b != 0);
        let panics_before = PANICS.load(Ordering::SeqCst);
        let t0 = Instant::now();
        let p2 = path.clone();
        let allow_legacy = rng.chance(1, 3);
        let outcome = std::panic::catch_unwind(move || -> (String, u64, u64) {
            let b = feoxdb::FeoxStore::builder().device_path(p2).hash_bits(6).no_memory_limit().enable_ttl(true).allow_ambiguous_legacy_recovery(allow_legacy);
            match crate::storeutil::with_cpus(2, || b.build()) {
                Err(e) => (format!("Err({})", err_name(&e)), 0, 0),
                Ok(store) => {
                    // probe workload: every call must answer without panicking; errors are fine
                    let snap = store.verif_snapshot();
                    let mut calls = 0u64;
                    for e in snap.entries.iter().take(64) {
                        let _ = store.get(&e.key);
                        let _ = store.get_size(&e.key);
                        let _ = store.get_ttl(&e.key);
                        calls += 3;
                    }
                    // every kind of read-modify-write on a sample of the keys as recovered (extreme timestamps,
                    // expiries and lengths included): errors are fine, panics are not
                    for e in snap.entries.iter().take(12) {
                        let _ = store.update_ttl(&e.key, 100);
                        let _ = store.persist(&e.key);
                        let _ = store.get_bytes(&e.key);
                        let _ = store.contains_key(&e.key);
                        if let Ok(cur) = store.get(&e.key) {
                            let _ = store.compare_and_swap(&e.key, &cur, &cur);
                        }
                        let _ = store.atomic_increment_with_ttl(&e.key, 1, 5);
                        let _ = store.insert_if_absent(&e.key, b"probe");
                        let _ = store.insert_with_ttl(&e.key, b"probe-ttl-value", 7);
                        let _ = store.delete_with_timestamp(&e.key, Some(e.timestamp));
                        calls += 9;
                    }
                    let _ = store.range_query(&[], &[0xff; 8], 1000);
                    let _ = store.insert(b"probe-key", b"probe-value-probe-value");
                    let _ = store.insert(b"probe-big", &vec![7u8; 9000]);
                    if let Some(e) = snap.entries.first() {
                        let _ = store.insert(&e.key, b"overwritten-by-probe");
                        let _ = store.update_ttl(&e.key, 100);
                        let _ = store.delete(&e.key);
                    }
                    if let Some(e) = snap.entries.last() {
                        let _ = store.compare_and_swap(&e.key, b"x", b"y");
                        let _ = store.atomic_increment(&e.key, 1);
                        let _ = store.json_patch(&e.key, br#"[{"op":"add","path":"/a","value":1}]"#);
                    }
                    let _ = store.flush();
                    let _ = store.delete(b"probe-key");
                    let _ = store.flush();
                    calls += 14;
                    let n = snap.entries.len() as u64;
                    // the 0.5 s worker shutdown happens on a reaper thread; panics there reach the hook
                    REAPERS.lock().push(std::thread::spawn(move || drop(store)));
                    ("Opened".to_string(), n, calls)
                }
            }
        });
        let elapsed = t0.elapsed().as_millis() as u64;
        let (result, keys, calls, panicked) = match outcome {
            Ok((r, k, c)) => (r, k, c, PANICS.load(Ordering::SeqCst) > panics_before),
            Err(_) => ("PANIC".to_string(), 0, 0, true),
        };
        let after = std::fs::read(&path).map(|d| fnv(&d)).unwrap_or(0);
        let unchanged = after == before;
        let msgs: Vec<String> = panic_msgs.lock().drain(..).collect();
        let rec = json!({"done": i, "mutator": mutator, "version": s.version, "size": image.len(), "result": result, "keys": keys, "probe_calls": calls, "panicked": panicked, "panic_msgs": msgs,
            "unchanged": unchanged, "both_sigs_bad": both_sigs_bad, "ms": elapsed, "synth_records": s.records.len()});
        writeln!(log, "{rec}").unwrap();
        log.flush().unwrap();
        let _ = std::fs::remove_file(&path);
    }
    let before_join = PANICS.load(Ordering::SeqCst);
    let hs: Vec<_> = std::mem::take(&mut *REAPERS.lock());
    for h in hs {
        let _ = h.join();
    }
    if PANICS.load(Ordering::SeqCst) > before_join {
        let msgs: Vec<String> = panic_msgs.lock().drain(..).collect();
        writeln!(log, "{}", json!({"late_panics": msgs, "from": from, "to": to})).unwrap();
    }
    writeln!(log, "{{\"finished\": true}}").unwrap();
    std::process::exit(0);
}

pub fn run(args: &Args) -> Report {
    let mut report = Report::new(
        "fuzzopen",
        "device images synthesised by the independent codec (v1/v2/v3, 17-128 blocks, records of 1-3 blocks, complete retirement extents, journal absent/clear/active) and mutated by 23 mutators (a third of the files written sparsely): random bytes; bit flips anywhere / biased to metadata, journal and block heads; block swap/duplicate/zero; size changes (<=reserved area, non-multiple, truncated); structure-aware forgeries with recomputed tokens and checksums (value_len 0/2^32/2^63/MAX/beyond device, key_len 0/4066+/65535, records swallowing neighbours, marker remaining 0/huge/overflowing/state bytes, journal extents below block 16/beyond device/overlapping/1025 entries/generation MAX/unknown version, an otherwise valid device whose winning journal slot is active with generation MAX over a live record (a refusal with ANY error code must leave the file untouched), journal header fields that lie about entry count (1025..2^32-1), state or generation with the checksum pair left consistent or recomputed, metadata version 0/4, wrong device size, generation MAX, wrong block size); bad or zeroed signatures; zeroed extent tails. Each image is opened in a child under catch_unwind + panic hook with a probe workload on stores that open; aborts and hangs are caught by the parent. distinct non-trivial = (mutator, version, outcome, size class) cells; non-trivial = everything except untouched valid images",
    );
    let shard = args.num("shard", 0);
    let shards = args.num("shards", 1).max(1);
    let total = args.num("images", if args.thorough() { 200_000 } else { 6_000 });
    let batch = 250u64;
    let exe = std::env::current_exe().unwrap().to_string_lossy().to_string();
    let scratch = storeutil::Scratch(storeutil::scratch_dir(&format!("fuzz{shard}")));
    let dir = scratch.0.clone();
    let batches: Vec<u64> = (0..total.div_ceil(batch)).filter(|b| b % shards == shard).collect();
    let queue = Arc::new(parking_lot::Mutex::new(batches));
    let merged = Arc::new(parking_lot::Mutex::new(Report::new("fuzzopen", "")));
    let mut handles = Vec::new();
    for _ in 0..args.num("threads", 12) {
        let (queue, merged, exe, dir) = (queue.clone(), merged.clone(), exe.clone(), dir.clone());
        let seed = args.seed;
        handles.push(std::thread::spawn(move || {
            let mut local = Report::new("fuzzopen", "");
            loop {
                let Some(b) = queue.lock().pop() else { break };
                let (from, to) = (b * batch, ((b + 1) * batch).min(total));
                let tag = format!("b{b}");
                let mut child = match std::process::Command::new(&exe)
                    .arg("fuzz-child")
                    .args(["--dir", &dir, "--from", &from.to_string(), "--to", &to.to_string(), "--tag", &tag, "--seed", &seed.to_string()])
                    .stdout(std::process::Stdio::null())
                    .stderr(std::process::Stdio::null())
                    .spawn()
                {
                    Ok(c) => c,
                    Err(e) => {
                        local.inconclusive.push(format!("spawn: {e}"));
                        continue;
                    }
                };
                let logpath = format!("{dir}/{tag}.log");
                let mut last_progress = Instant::now();
                let mut last_size = 0u64;
                let mut hang = None;
                let mut extensions = 0u32;
                let mut slow = false;
                let status = loop {
                    match child.try_wait() {
                        Ok(Some(st)) => break Some(st),
                        Ok(None) => {
                            let size = std::fs::metadata(&logpath).map(|m| m.len()).unwrap_or(0);
                            if size != last_size {
                                last_size = size;
                                last_progress = Instant::now();
                            }
                            if last_progress.elapsed() > Duration::from_secs(60) {
                                // the wall clock only raises the question: a hang is a child in which nobody computes
                                // for 2 s (blocked) or one thread burns >= 8.5 s of CPU time in 10 s while the rest is
                                // idle (an endless loop); a child that is merely slow gets more time (5 extensions)
                                let cpu = |pid: u32| crate::engines::live::thread_cpu(pid);
                                let a = cpu(child.id());
                                std::thread::sleep(Duration::from_secs(2));
                                let b2 = cpu(child.id());
                                let progressed = b2.iter().filter(|(t, (_, c))| a.get(*t).map(|(_, c0)| c0 != c).unwrap_or(true)).count();
                                let mut is_hang = progressed == 0;
                                if !is_hang {
                                    let c0 = cpu(child.id());
                                    std::thread::sleep(Duration::from_secs(10));
                                    let c1 = cpu(child.id());
                                    let deltas: Vec<u64> = c1.iter().map(|(t, (_, c))| c.saturating_sub(c0.get(t).map(|x| x.1).unwrap_or(*c))).collect();
                                    is_hang = deltas.iter().filter(|d| **d >= 850).count() == 1 && deltas.iter().filter(|d| **d < 850).sum::<u64>() <= 50;
                                }
                                let same_image = std::fs::metadata(&logpath).map(|m| m.len()).unwrap_or(0) == last_size;
                                if is_hang && same_image && matches!(child.try_wait(), Ok(None)) {
                                    hang = Some(());
                                    let _ = child.kill();
                                    let _ = child.wait();
                                    break None;
                                }
                                extensions += 1;
                                if extensions > 5 {
                                    slow = true;
                                    let _ = child.kill();
                                    let _ = child.wait();
                                    break None;
                                }
                                last_progress = Instant::now();
                            }
                            std::thread::sleep(Duration::from_millis(20));
                        }
                        Err(_) => break None,
                    }
                };
                let text = std::fs::read_to_string(&logpath).unwrap_or_default();
                let mut last_started: Option<(u64, String)> = None;
                let mut finished = false;
                for line in text.lines() {
                    let Ok(v) = serde_json::from_str::<Value>(line) else { continue };
                    if let Some(i) = v["start"].as_u64() {
                        last_started = Some((i, v["mutator"].as_str().unwrap_or("").to_string()));
                    } else if v["finished"].as_bool() == Some(true) {
                        finished = true;
                    } else if v["late_panics"].is_array() {
                        local.violation("fuzz:panic-during-shutdown", format!("images {}..{}: panic while a store opened from a mutated image was shutting down: {}", v["from"], v["to"], v["late_panics"]), json!({"engine": "fuzzopen", "seed": seed, "from": v["from"], "to": v["to"]}));
                    } else if let Some(i) = v["done"].as_u64() {
                        last_started = None;
                        local.evaluations += 1;
                        let mutator = v["mutator"].as_str().unwrap_or("");
                        let result = v["result"].as_str().unwrap_or("");
                        let replay = json!({"engine": "fuzzopen", "seed": seed, "image": i, "mutator": mutator, "version": v["version"], "size": v["size"], "result": result});
                        local.count(&format!("mutator_{mutator}"), 1);
                        local.count(&format!("outcome_{result}"), 1);
                        if mutator != "valid" {
                            let size_class = v["size"].as_u64().unwrap_or(0) / (16 * 4096);
                            local.nontrivial.insert(fnv_mix(fnv_mix(fnv(mutator.as_bytes()), fnv(result.as_bytes())), fnv_mix(v["version"].as_u64().unwrap_or(0), size_class)));
                        }
                        if v["panicked"].as_bool() == Some(true) {
                            local.violation(format!("fuzz:panic:{mutator}"), format!("image {i} ({mutator}, v{}): panic while opening / probing: {}", v["version"], v["panic_msgs"]), replay.clone());
                        }
                        if result == "Opened" {
                            local.count("images_opened_and_probed", 1);
                            local.count("probe_calls", v["probe_calls"].as_u64().unwrap_or(0));
                        }
                        if mutator == "valid" {
                            if result != "Opened" || v["keys"].as_u64() != v["synth_records"].as_u64() {
                                // a v1/v2 image with a legacy marker etc. cannot occur here: synthesised images are plain valid
                                local.inconclusive.push(format!("image {i}: an unmutated synthesised v{} image did not open to its {} records (result {result}, keys {}) — codec/harness disagreement", v["version"], v["synth_records"], v["keys"]));
                            }
                        }
                        let unchanged = v["unchanged"].as_bool().unwrap_or(true);
                        // "journal-generation-exhausted": the only defect of the image is in its bookkeeping, so a refusal
                        // is a refusal for a metadata reason whatever error code it carries
                        if (result == "Err(InvalidDevice)" || result == "Err(InvalidMetadata)" || (mutator == "journal-generation-exhausted" && result.starts_with("Err("))) && !unchanged {
                            local.violation(format!("fuzz:modified-on-reject:{mutator}"), format!("image {i} ({mutator}): open failed with {result} but the file bytes changed"), replay.clone());
                        } else if result.starts_with("Err(Invalid") {
                            local.count("byte_identity_checks", 1);
                        }
                        if v["both_sigs_bad"].as_bool() == Some(true) {
                            local.count("unrecognisable_files", 1);
                            if result == "Opened" {
                                local.violation(format!("fuzz:takeover:{mutator}"), format!("image {i} ({mutator}): a non-empty file without a FeOx signature was opened as a store"), replay.clone());
                            } else if !unchanged {
                                local.violation(format!("fuzz:modified-unrecognised:{mutator}"), format!("image {i} ({mutator}): a non-empty file without a FeOx signature was modified by the failed open"), replay.clone());
                            }
                        }
                        local.max("max_open_ms", v["ms"].as_u64().unwrap_or(0));
                    }
                }
                if hang.is_some() {
                    if let Some((i, m)) = &last_started {
                        local.violation(format!("fuzz:hang:{m}"), format!("image {i} ({m}): open / probe made no progress for 60 s, with every thread blocked or a single thread spinning (CPU-time signature)"), json!({"engine": "fuzzopen", "seed": seed, "image": i, "mutator": m}));
                    } else {
                        local.inconclusive.push(format!("batch {b}: child stalled between images"));
                    }
                } else if slow {
                    local.inconclusive.push(format!("batch {b}: child still computing on one image after several minutes without a stall or spin signature (slow machine)"));
                } else if !finished {
                    match (&last_started, status) {
                        (Some((i, m)), st) => local.violation(format!("fuzz:abort:{m}"), format!("image {i} ({m}): the process died while opening / probing it ({st:?})"), json!({"engine": "fuzzopen", "seed": seed, "image": i, "mutator": m})),
                        (None, st) => local.inconclusive.push(format!("batch {b}: child ended without finishing ({st:?})")),
                    }
                }
                let _ = std::fs::remove_file(&logpath);
            }
            merged.lock().merge(local);
        }));
    }
    for h in handles {
        if h.join().is_err() {
            report.inconclusive.push("HARNESS-PANIC: a fuzzopen worker thread panicked (its results are lost)".into());
        }
    }
    let m = Arc::try_unwrap(merged).ok().unwrap().into_inner();
    report.merge(m);
    if report.samples.is_empty() {
        report.sample(json!({"note": "image i is regenerated from (seed, i): synth() then mutate(); see counters for mutators and outcomes"}));
    }
    report
}
