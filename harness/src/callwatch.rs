//! Per-call CPU budget: a call through the public API that has burnt more than a budget of its
//! *own thread's CPU time* without returning is a livelock (a busy retry loop that makes no
//! progress). CPU time, unlike wall-clock time, does not grow because the machine is loaded.
//!
//! Fast path (enter / leave) touches only the calling thread's own slot.

use parking_lot::Mutex;
use std::sync::atomic::{AtomicU64, AtomicUsize, Ordering};
use std::sync::{Arc, OnceLock};

struct Slot {
    pthread: libc::pthread_t,
    /// thread CPU time at entry + 1 (0 = not inside a watched call)
    cpu_at_entry_ns: AtomicU64,
    call_ptr: AtomicUsize,
    call_len: AtomicUsize,
    alive: std::sync::atomic::AtomicBool,
}

static SLOTS: OnceLock<Mutex<Vec<Arc<Slot>>>> = OnceLock::new();

struct Registration(Arc<Slot>);
impl Drop for Registration {
    fn drop(&mut self) {
        self.0.alive.store(false, Ordering::Release);
        self.0.cpu_at_entry_ns.store(0, Ordering::Release);
    }
}

thread_local! {
    static MINE: Registration = {
        let slot = Arc::new(Slot {
            pthread: unsafe { libc::pthread_self() },
            cpu_at_entry_ns: AtomicU64::new(0),
            call_ptr: AtomicUsize::new(0),
            call_len: AtomicUsize::new(0),
            alive: std::sync::atomic::AtomicBool::new(true),
        });
        SLOTS.get_or_init(|| Mutex::new(Vec::new())).lock().push(slot.clone());
        Registration(slot)
    };
}

fn clock_ns(id: libc::clockid_t) -> u64 {
    let mut ts = libc::timespec { tv_sec: 0, tv_nsec: 0 };
    unsafe { libc::clock_gettime(id, &mut ts) };
    ts.tv_sec as u64 * 1_000_000_000 + ts.tv_nsec as u64
}

/// The calling thread is about to enter `call`.
#[inline]
pub fn enter(call: &'static str) {
    MINE.with(|m| {
        m.0.call_ptr.store(call.as_ptr() as usize, Ordering::Relaxed);
        m.0.call_len.store(call.len(), Ordering::Relaxed);
        m.0.cpu_at_entry_ns.store(clock_ns(libc::CLOCK_THREAD_CPUTIME_ID) + 1, Ordering::Release);
    });
}

/// The call returned.
#[inline]
pub fn leave() {
    MINE.with(|m| m.0.cpu_at_entry_ns.store(0, Ordering::Release));
}

/// Run `f` as a watched call.
#[inline]
pub fn watched<T>(call: &'static str, f: impl FnOnce() -> T) -> T {
    enter(call);
    let r = f();
    leave();
    r
}

/// (call, cpu seconds burnt inside it) of the worst in-flight call, if any exceeds `budget_s`.
pub fn over_budget(budget_s: f64) -> Option<(String, f64)> {
    let slots = SLOTS.get_or_init(|| Mutex::new(Vec::new())).lock();
    let mut worst: Option<(String, f64)> = None;
    for slot in slots.iter() {
        let at_entry = slot.cpu_at_entry_ns.load(Ordering::Acquire);
        if at_entry == 0 || !slot.alive.load(Ordering::Acquire) {
            continue;
        }
        let mut cid: libc::clockid_t = 0;
        if unsafe { libc::pthread_getcpuclockid(slot.pthread, &mut cid) } != 0 {
            continue;
        }
        let burnt = clock_ns(cid).saturating_sub(at_entry - 1) as f64 / 1e9;
        // the call may have returned in between: re-check that it is still the same call
        if slot.cpu_at_entry_ns.load(Ordering::Acquire) != at_entry {
            continue;
        }
        if burnt > budget_s && worst.as_ref().is_none_or(|w| burnt > w.1) {
            let name = unsafe { std::str::from_utf8_unchecked(std::slice::from_raw_parts(slot.call_ptr.load(Ordering::Relaxed) as *const u8, slot.call_len.load(Ordering::Relaxed))) };
            worst = Some((name.to_string(), burnt));
        }
    }
    worst
}

static HANDLER: OnceLock<Arc<dyn Fn(String, f64) + Send + Sync>> = OnceLock::new();

/// A call has gone through `steps` retry rounds without finishing (a logical-step bound, reported by a hook
/// inside the retry loop): hand it to the process's livelock handler.
pub fn logical_livelock(call: &str, steps: u64) {
    if let Some(h) = HANDLER.get() {
        h(format!("{call} (still retrying after {steps} rounds of its internal retry loop)"), 0.0);
    }
}

/// Background supervisor: calls `on_livelock` once when some in-flight call exceeds the CPU budget.
pub fn supervise(budget_s: f64, on_livelock: Arc<dyn Fn(String, f64) + Send + Sync>) {
    let _ = HANDLER.set(on_livelock.clone());
    std::thread::spawn(move || loop {
        std::thread::sleep(std::time::Duration::from_millis(250));
        if let Some((call, burnt)) = over_budget(budget_s) {
            on_livelock(call, burnt);
            return;
        }
    });
}
