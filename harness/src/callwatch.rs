//! Per-call CPU budget: a call through the public API that has burnt more than a budget of its
//! *own thread's CPU time* without returning is a livelock (a busy retry loop that makes no
//! progress). CPU time, unlike wall-clock time, does not grow because the machine is loaded.

use parking_lot::Mutex;
use std::collections::HashMap;
use std::sync::{Arc, OnceLock};
use std::thread::ThreadId;

struct Slot {
    pthread: libc::pthread_t,
    call: String,
    cpu_at_entry_ns: u64,
}

static SLOTS: OnceLock<Mutex<HashMap<ThreadId, Slot>>> = OnceLock::new();

fn slots() -> &'static Mutex<HashMap<ThreadId, Slot>> {
    SLOTS.get_or_init(|| Mutex::new(HashMap::new()))
}

fn clock_ns(id: libc::clockid_t) -> u64 {
    let mut ts = libc::timespec { tv_sec: 0, tv_nsec: 0 };
    unsafe { libc::clock_gettime(id, &mut ts) };
    ts.tv_sec as u64 * 1_000_000_000 + ts.tv_nsec as u64
}

/// The calling thread is about to enter `call`.
pub fn enter(call: &str) {
    let slot = Slot { pthread: unsafe { libc::pthread_self() }, call: call.to_string(), cpu_at_entry_ns: clock_ns(libc::CLOCK_THREAD_CPUTIME_ID) };
    slots().lock().insert(std::thread::current().id(), slot);
}

/// The call returned.
pub fn leave() {
    slots().lock().remove(&std::thread::current().id());
}

/// Run `f` as a watched call.
pub fn watched<T>(call: &str, f: impl FnOnce() -> T) -> T {
    enter(call);
    let r = f();
    leave();
    r
}

/// (call, cpu seconds burnt inside it) of the worst in-flight call, if any exceeds `budget_s`.
pub fn over_budget(budget_s: f64) -> Option<(String, f64)> {
    let slots = slots().lock();
    let mut worst: Option<(String, f64)> = None;
    for slot in slots.values() {
        let mut cid: libc::clockid_t = 0;
        if unsafe { libc::pthread_getcpuclockid(slot.pthread, &mut cid) } != 0 {
            continue;
        }
        let burnt = clock_ns(cid).saturating_sub(slot.cpu_at_entry_ns) as f64 / 1e9;
        if burnt > budget_s && worst.as_ref().is_none_or(|w| burnt > w.1) {
            worst = Some((slot.call.clone(), burnt));
        }
    }
    worst
}

/// Background supervisor: calls `on_livelock` once when some in-flight call exceeds the CPU budget.
pub fn supervise(budget_s: f64, on_livelock: Arc<dyn Fn(String, f64) + Send + Sync>) {
    std::thread::spawn(move || loop {
        std::thread::sleep(std::time::Duration::from_millis(250));
        if let Some((call, burnt)) = over_budget(budget_s) {
            on_livelock(call, burnt);
            return;
        }
    });
}
