//! Global-allocator wrapper (C20): while the io_uring write path has buffers queued to the kernel, every
//! deallocation is checked against their address ranges. Memory the kernel may still read must not be given
//! back to the allocator by anybody - not by the I/O layer (which the buffer life-cycle events already cover) and
//! not by whoever owns the payload. No sanitizer can see this: the reader is the kernel.
//! The fast path (nothing queued) is one relaxed load per deallocation.

use std::alloc::{GlobalAlloc, Layout, System};
use std::sync::atomic::{AtomicUsize, Ordering};

const SLOTS: usize = 256;
#[allow(clippy::declare_interior_mutable_const)]
const Z: AtomicUsize = AtomicUsize::new(0);
static START: [AtomicUsize; SLOTS] = [Z; SLOTS];
static END: [AtomicUsize; SLOTS] = [Z; SLOTS];
static ACTIVE: AtomicUsize = AtomicUsize::new(0);
static FREED: AtomicUsize = AtomicUsize::new(0);
static FIRST_PTR: AtomicUsize = AtomicUsize::new(0);
static FIRST_LEN: AtomicUsize = AtomicUsize::new(0);

pub struct WatchAlloc;

/// `[ptr, ptr+len)` has been handed to the kernel.
pub fn watch(ptr: usize, len: usize) {
    if ptr == 0 || len == 0 {
        return;
    }
    for i in 0..SLOTS {
        if START[i].compare_exchange(0, ptr, Ordering::AcqRel, Ordering::Relaxed).is_ok() {
            END[i].store(ptr + len, Ordering::Release);
            ACTIVE.fetch_add(1, Ordering::AcqRel);
            return;
        }
    }
}

/// The completion for the buffer at `ptr` has been reaped (or the I/O layer reported dropping it).
pub fn unwatch(ptr: usize) {
    for i in 0..SLOTS {
        if START[i].load(Ordering::Acquire) == ptr {
            END[i].store(0, Ordering::Release);
            START[i].store(0, Ordering::Release);
            ACTIVE.fetch_sub(1, Ordering::AcqRel);
            return;
        }
    }
}

/// (number of deallocations that hit a range still queued to the kernel, first such (ptr, len))
pub fn freed_in_flight() -> (usize, usize, usize) {
    (FREED.load(Ordering::Acquire), FIRST_PTR.load(Ordering::Acquire), FIRST_LEN.load(Ordering::Acquire))
}

#[inline]
fn check(ptr: *mut u8, size: usize) {
    if ACTIVE.load(Ordering::Relaxed) == 0 {
        return;
    }
    let (a, b) = (ptr as usize, ptr as usize + size.max(1));
    for i in 0..SLOTS {
        let s = START[i].load(Ordering::Acquire);
        if s != 0 {
            let e = END[i].load(Ordering::Acquire);
            if e != 0 && a < e && s < b {
                if FREED.fetch_add(1, Ordering::AcqRel) == 0 {
                    FIRST_PTR.store(a, Ordering::Release);
                    FIRST_LEN.store(size, Ordering::Release);
                }
                return;
            }
        }
    }
}

unsafe impl GlobalAlloc for WatchAlloc {
    unsafe fn alloc(&self, layout: Layout) -> *mut u8 {
        System.alloc(layout)
    }
    unsafe fn alloc_zeroed(&self, layout: Layout) -> *mut u8 {
        System.alloc_zeroed(layout)
    }
    unsafe fn dealloc(&self, ptr: *mut u8, layout: Layout) {
        check(ptr, layout.size());
        System.dealloc(ptr, layout)
    }
    unsafe fn realloc(&self, ptr: *mut u8, layout: Layout, new_size: usize) -> *mut u8 {
        check(ptr, layout.size());
        System.realloc(ptr, layout, new_size)
    }
}
