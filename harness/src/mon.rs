//! The monitor installed into feoxdb's `verif` hooks: per-file device trace and
//! fault injection (H1), pinned-extent monitor (H3b x H1), scheduling-point
//! controller (H3/M7).

use feoxdb::verif::{FileId, IoDecision, Monitor, UringEvent};
use parking_lot::{Mutex, RwLock};
use std::cell::RefCell;
use std::collections::HashMap;
use std::sync::atomic::{AtomicU64, Ordering};
use std::sync::{Arc, OnceLock};
use std::time::Duration;

use crate::rng::Rng;

pub const BLOCK: u64 = 4096;

#[derive(Clone, Copy, Debug, PartialEq, Eq, Hash, PartialOrd, Ord)]
pub enum IoClass {
    MetaWrite,
    JournalWrite,
    DataWrite,
    MarkerWrite,
    Fsync,
}

impl IoClass {
    pub fn name(self) -> &'static str {
        match self {
            IoClass::MetaWrite => "meta_write",
            IoClass::JournalWrite => "journal_write",
            IoClass::DataWrite => "data_write",
            IoClass::MarkerWrite => "marker_write",
            IoClass::Fsync => "fsync",
        }
    }
}

pub fn classify_write(off: u64, data: &[u8]) -> IoClass {
    let block = off / BLOCK;
    if block == 0 || block == 7 {
        IoClass::MetaWrite
    } else if (1..7).contains(&block) {
        IoClass::JournalWrite
    } else if data.len() >= 8 && &data[..8] == b"\0DELETED" {
        IoClass::MarkerWrite
    } else {
        IoClass::DataWrite
    }
}

#[derive(Clone, Debug)]
pub enum Ev {
    /// A write was issued. `applied` is false when a FailBefore was injected.
    W { off: u64, data: Arc<Vec<u8>>, uring: bool, applied: bool, call: u32 },
    /// fsync begins
    Fb { call: u32 },
    /// fsync ended; `ok` = the data really was synced
    Fe { ok: bool },
}

#[derive(Clone, Copy, Debug, PartialEq, Eq)]
pub enum Fault {
    Before,
    After,
}

#[derive(Clone, Debug, Default)]
pub struct FaultPlan {
    /// fail exactly these I/O call indices
    pub at: Vec<(u32, Fault)>,
    /// fail every call with index >= this
    pub from: Option<(u32, Fault)>,
    /// fail the n-th..(n+k)-th call of a class
    pub class: Option<(IoClass, u32, u32, Fault)>,
    /// fail every data write of at least this many bytes (others proceed)
    pub data_min_len: Option<(usize, Fault)>,
    /// io_uring SQEs are numbered and failable like synchronous writes (an injected failure makes the
    /// kernel complete the SQE with EBADF; "after" is delivered as "before")
    pub uring: bool,
    /// make the n-th io_uring_enter of this file fail with errno (4 = EINTR is retried by the store,
    /// anything else is an indeterminate outcome)
    pub enter: Vec<(u32, i32)>,
    /// every io_uring_enter of this file from the n-th on fails with errno (a condition that does not go away)
    pub enter_from: Option<(u32, i32)>,
}

#[derive(Default)]
struct FileState {
    events: Vec<Ev>,
    record: bool,
    calls: u32,
    class_calls: HashMap<IoClass, u32>,
    call_classes: Vec<IoClass>,
    last_write_class: Option<IoClass>,
    plan: FaultPlan,
    consumed: Vec<(u32, IoClass, Fault)>,
    pins: Vec<(u64, u64, std::thread::ThreadId)>,
    pin_checks: u64,
    pin_violations: Vec<String>,
    pins_seen: u64,
    enter_calls: u32,
    enter_faults: Vec<(u32, i32)>,
}

pub struct FileMon {
    pub id: FileId,
    state: Mutex<FileState>,
}

impl FileMon {
    pub fn set_recording(&self, on: bool) {
        self.state.lock().record = on;
    }
    pub fn set_plan(&self, plan: FaultPlan) {
        self.state.lock().plan = plan;
    }
    pub fn clear_plan(&self) {
        self.state.lock().plan = FaultPlan::default();
    }
    pub fn len(&self) -> usize {
        self.state.lock().events.len()
    }
    pub fn calls(&self) -> u32 {
        self.state.lock().calls
    }
    pub fn events(&self) -> Vec<Ev> {
        self.state.lock().events.clone()
    }
    pub fn take_events(&self) -> Vec<Ev> {
        std::mem::take(&mut self.state.lock().events)
    }
    pub fn consumed(&self) -> Vec<(u32, IoClass, Fault)> {
        self.state.lock().consumed.clone()
    }
    pub fn call_classes(&self) -> Vec<IoClass> {
        self.state.lock().call_classes.clone()
    }
    pub fn pin_stats(&self) -> (u64, u64, Vec<String>) {
        let s = self.state.lock();
        (s.pins_seen, s.pin_checks, s.pin_violations.clone())
    }

    fn decide_len(state: &mut FileState, class: IoClass, len: usize) -> (u32, Option<Fault>) {
        let (call, mut fault) = FileMon::decide(state, class);
        if fault.is_none() && class == IoClass::DataWrite {
            if let Some((min, f)) = state.plan.data_min_len {
                if len >= min {
                    fault = Some(f);
                    state.consumed.push((call, class, f));
                }
            }
        }
        (call, fault)
    }

    fn decide(state: &mut FileState, class: IoClass) -> (u32, Option<Fault>) {
        let call = state.calls;
        state.calls += 1;
        state.call_classes.push(class);
        let nth = {
            let e = state.class_calls.entry(class).or_insert(0);
            let n = *e;
            *e += 1;
            n
        };
        let mut fault = None;
        if let Some(&(_, f)) = state.plan.at.iter().find(|(i, _)| *i == call) {
            fault = Some(f);
        }
        if let Some((from, f)) = state.plan.from {
            if call >= from {
                fault = Some(f);
            }
        }
        if let Some((c, start, count, f)) = state.plan.class {
            if c == class && nth >= start && nth < start + count {
                fault = Some(f);
            }
        }
        if let Some(f) = fault {
            state.consumed.push((call, class, f));
        }
        (call, fault)
    }
}

impl FileMon {
    fn on_write(&self, off: u64, data: &[u8], path: &'static str) -> IoDecision {
        let mut s = self.state.lock();
        let uring = path == "uring";
        // pinned-extent monitor: no device write may hit blocks a reader pins
        if !s.pins.is_empty() {
            let first = off / BLOCK;
            let last = (off + data.len() as u64).div_ceil(BLOCK);
            s.pin_checks += 1;
            let hits: Vec<String> = s
                .pins
                .iter()
                .filter(|(ps, pn, _)| first < ps + pn && *ps < last)
                .map(|(ps, pn, t)| format!("write blocks [{first},{last}) hits pin [{ps},+{pn}) held by {t:?}"))
                .collect();
            s.pin_violations.extend(hits);
        }
        let class = classify_write(off, data);
        let (call, fault) = if uring && !s.plan.uring {
            // SQE submissions are observed only; they do not get a call index
            (u32::MAX, None)
        } else if uring {
            let (call, fault) = FileMon::decide_len(&mut s, class, data.len());
            (call, fault.map(|_| Fault::Before))
        } else {
            FileMon::decide_len(&mut s, class, data.len())
        };
        s.last_write_class = Some(class);
        let applied = fault != Some(Fault::Before);
        if s.record {
            s.events.push(Ev::W { off, data: Arc::new(data.to_vec()), uring, applied, call });
        }
        match fault {
            None => IoDecision::Proceed,
            Some(Fault::Before) => IoDecision::FailBefore(5),
            Some(Fault::After) => IoDecision::FailAfter(5),
        }
    }

    fn on_enter(&self) -> Option<i32> {
        let mut s = self.state.lock();
        let n = s.enter_calls;
        s.enter_calls += 1;
        let errno = s.plan.enter.iter().find(|(i, _)| *i == n).map(|(_, e)| *e).or_else(|| s.plan.enter_from.filter(|(from, _)| n >= *from).map(|(_, e)| e));
        if let Some(e) = errno {
            if s.enter_faults.len() < 4096 {
                s.enter_faults.push((n, e));
            }
        }
        errno
    }

    pub fn enter_stats(&self) -> (u32, Vec<(u32, i32)>) {
        let s = self.state.lock();
        (s.enter_calls, s.enter_faults.clone())
    }

    fn on_fsync(&self) -> IoDecision {
        let mut s = self.state.lock();
        let (call, fault) = FileMon::decide(&mut s, IoClass::Fsync);
        if s.record {
            s.events.push(Ev::Fb { call });
        }
        match fault {
            None => IoDecision::Proceed,
            Some(Fault::Before) => IoDecision::FailBefore(5),
            Some(Fault::After) => IoDecision::FailAfter(5),
        }
    }

    fn on_fsync_done(&self, ok: bool) {
        let mut s = self.state.lock();
        if s.record {
            s.events.push(Ev::Fe { ok });
        }
    }
}

// ---------------------------------------------------------------- scheduling

pub const POINTS: &[&str] = &[
    "insert.after_read",
    "mem.reserved",
    "mem.reserved.locked",
    "insert.before_enqueue",
    "delete.before_enqueue",
    "update.before_entry",
    "update.before_enqueue",
    "incr.before_swap",
    "cas.before_swap",
    "patch.before_swap",
    "ttl.before_update",
    "ttl.before_enqueue",
    "range.entry",
    "read.before_pin",
    "read.pinned",
    "read.pinned.unlocked",
    "read.before_pread",
    "read.after_pread",
    "deferred.before_pread",
    "ttl.sweep.sampled",
    "flush.allocated",
    "flush.before_journal",
    "flush.before_data",
    "flush.before_clear",
    "flush.before_publish",
    "retire.before_markers",
    "retire.before_release",
    "force_flush.loop",
];

#[derive(Default)]
pub struct PointStat {
    pub arrivals: AtomicU64,
    pub sleeps: AtomicU64,
    pub exercised: AtomicU64,
}

pub struct SchedCtl {
    pub seed: u64,
    /// probability (per mille) of perturbing at any point
    pub jitter_pm: u64,
    pub max_us: u64,
    /// per-point override: (per-mille, sleep_us)
    pub targeted: HashMap<&'static str, (u64, u64)>,
    pub stats: Vec<PointStat>,
    /// incremented by the harness whenever a client operation completes
    pub ops_done: AtomicU64,
    /// number of threads currently inside the "mem.reserved" window
    pub in_reserved: AtomicU64,
    pub max_in_reserved: AtomicU64,
    /// callback sampled while a thread sits in mem.reserved: returns (usage, limit)
    pub reserved_probe: RwLock<Option<Arc<dyn Fn() -> (usize, usize) + Send + Sync>>>,
    pub reserved_over_limit: Mutex<Vec<String>>,
    pub reserved_samples: AtomicU64,
    /// extra pause (us) at the range-scan entry where the epoch guard is re-pinned (every 256th entry)
    pub repin_delay_us: AtomicU64,
}

impl SchedCtl {
    pub fn new(seed: u64, jitter_pm: u64, max_us: u64) -> Self {
        SchedCtl {
            seed,
            jitter_pm,
            max_us,
            targeted: HashMap::new(),
            stats: POINTS.iter().map(|_| PointStat::default()).collect(),
            ops_done: AtomicU64::new(0),
            in_reserved: AtomicU64::new(0),
            max_in_reserved: AtomicU64::new(0),
            reserved_probe: RwLock::new(None),
            reserved_over_limit: Mutex::new(Vec::new()),
            reserved_samples: AtomicU64::new(0),
            repin_delay_us: AtomicU64::new(0),
        }
    }

    pub fn target(mut self, point: &'static str, per_mille: u64, sleep_us: u64) -> Self {
        self.targeted.insert(point, (per_mille, sleep_us));
        self
    }

    pub fn op_done(&self) {
        self.ops_done.fetch_add(1, Ordering::Relaxed);
    }

    pub fn summary(&self) -> Vec<(&'static str, u64, u64, u64)> {
        POINTS
            .iter()
            .zip(self.stats.iter())
            .map(|(p, s)| {
                (
                    *p,
                    s.arrivals.load(Ordering::Relaxed),
                    s.sleeps.load(Ordering::Relaxed),
                    s.exercised.load(Ordering::Relaxed),
                )
            })
            .collect()
    }

    fn at(&self, point: &'static str) {
        let Some(index) = POINTS.iter().position(|p| *p == point) else {
            return;
        };
        let stat = &self.stats[index];
        stat.arrivals.fetch_add(1, Ordering::Relaxed);
        let (pm, us) = match self.targeted.get(point) {
            Some(&(pm, us)) => (pm, us),
            None => (self.jitter_pm, 0),
        };
        if pm == 0 {
            return;
        }
        let (go, dur) = THREAD_RNG.with(|cell| {
            let mut cell = cell.borrow_mut();
            let rng = cell.get_or_insert_with(|| {
                let tid = format!("{:?}", std::thread::current().id());
                Rng::derive(self.seed, crate::rng::fnv(tid.as_bytes()), 7)
            });
            let go = rng.below(1000) < pm;
            let dur = if us > 0 {
                us
            } else if self.max_us == 0 {
                0
            } else {
                rng.below(self.max_us + 1)
            };
            (go, dur)
        });
        if !go {
            return;
        }
        let reserved = point == "mem.reserved";
        if reserved {
            let n = self.in_reserved.fetch_add(1, Ordering::AcqRel) + 1;
            self.max_in_reserved.fetch_max(n, Ordering::AcqRel);
        }
        let before = self.ops_done.load(Ordering::Relaxed);
        stat.sleeps.fetch_add(1, Ordering::Relaxed);
        if dur == 0 {
            std::thread::yield_now();
        } else {
            std::thread::sleep(Duration::from_micros(dur));
        }
        if reserved {
            if let Some(probe) = self.reserved_probe.read().clone() {
                let (usage, limit) = probe();
                self.reserved_samples.fetch_add(1, Ordering::Relaxed);
                if usage > limit {
                    self.reserved_over_limit.lock().push(format!(
                        "memory_usage {usage} > limit {limit} with {} writers inside their reservation",
                        self.in_reserved.load(Ordering::Acquire)
                    ));
                }
            }
            self.in_reserved.fetch_sub(1, Ordering::AcqRel);
        }
        if self.ops_done.load(Ordering::Relaxed) != before {
            stat.exercised.fetch_add(1, Ordering::Relaxed);
        }
    }
}

thread_local! {
    static THREAD_RNG: RefCell<Option<Rng>> = const { RefCell::new(None) };
    static THREAD_PREADS: std::cell::Cell<u64> = const { std::cell::Cell::new(0) };
    static IN_ACTION: std::cell::Cell<bool> = const { std::cell::Cell::new(false) };
}

/// Number of device reads (value loads) the calling thread has performed so far.
pub fn thread_preads() -> u64 {
    THREAD_PREADS.with(|c| c.get())
}

// ---------------------------------------------------------------- hub

pub struct Hub {
    files: RwLock<HashMap<FileId, Arc<FileMon>>>,
    sched: RwLock<Option<Arc<SchedCtl>>>,
    uring: Mutex<UringBuffers>,
    /// called once for every file that is written to without being watched (e.g. a migration's
    /// temporary destination); used to make something happen "while the other side is busy"
    racers: RwLock<Vec<(u64, Arc<dyn Fn(FileId) + Send + Sync>)>>,
    seen_unwatched: Mutex<std::collections::HashSet<FileId>>,
    /// run on the arriving thread at every scheduling point (never re-entered from inside itself)
    action: RwLock<Option<Arc<dyn Fn(&'static str) + Send + Sync>>>,
}

/// Buffers the io_uring write path has handed to the kernel (C20: "reuse of a buffer the kernel may
/// still be writing from"). A buffer is in flight from the moment its SQE is queued until its
/// completion is reaped; the I/O layer must not drop its reference to it in between - after a
/// failed io_uring_enter that means never (the store leaks such buffers on purpose).
#[derive(Default)]
pub struct UringBuffers {
    in_flight: HashMap<usize, (usize, u32)>,
    pub queued: u64,
    pub completed: u64,
    pub completed_with_error: u64,
    pub dropped_after_completion: u64,
    pub dropped_never_queued: u64,
    pub violations: Vec<String>,
}

impl Monitor for Hub {
    fn uring_enter(&self, file: FileId, _queued: usize, _completed: usize) -> Option<i32> {
        let mon = self.files.read().get(&file).cloned();
        mon.and_then(|m| m.on_enter())
    }
    fn uring_event(&self, _file: FileId, event: UringEvent) {
        let mut u = self.uring.lock();
        match event {
            UringEvent::Queued { ptr, len } => {
                u.queued += 1;
                let e = u.in_flight.entry(ptr).or_insert((len, 0));
                e.1 += 1;
                if e.1 == 1 {
                    crate::watchalloc::watch(ptr, len);
                }
            }
            UringEvent::Completed { ptr, result } => {
                u.completed += 1;
                if result < 0 {
                    u.completed_with_error += 1;
                }
                let gone = match u.in_flight.get_mut(&ptr) {
                    Some(e) => {
                        e.1 -= 1;
                        e.1 == 0
                    }
                    None => false,
                };
                if gone {
                    u.in_flight.remove(&ptr);
                    crate::watchalloc::unwatch(ptr);
                }
            }
            UringEvent::Dropped { ptr, len } => {
                if let Some((qlen, n)) = u.in_flight.get(&ptr).copied() {
                    if u.violations.len() < 8 {
                        u.violations.push(format!("the I/O layer dropped its reference to the {len}-byte buffer at {ptr:#x} while {n} write(s) of {qlen} bytes queued from it had not completed (the kernel may still read it)"));
                    }
                } else if u.queued > 0 {
                    u.dropped_after_completion += 1;
                } else {
                    u.dropped_never_queued += 1;
                }
            }
        }
    }
    fn io_write(&self, file: FileId, offset: u64, data: &[u8], path: &'static str) -> IoDecision {
        let mon = self.files.read().get(&file).cloned();
        match mon {
            Some(mon) => mon.on_write(offset, data, path),
            None => {
                if !self.racers.read().is_empty() && self.seen_unwatched.lock().insert(file) {
                    let racers: Vec<_> = self.racers.read().iter().map(|(_, r)| r.clone()).collect();
                    for r in racers {
                        r(file);
                    }
                }
                IoDecision::Proceed
            }
        }
    }
    fn io_fsync(&self, file: FileId) -> IoDecision {
        let mon = self.files.read().get(&file).cloned();
        match mon {
            Some(mon) => mon.on_fsync(),
            None => IoDecision::Proceed,
        }
    }
    fn io_fsync_done(&self, file: FileId, ok: bool) {
        let mon = self.files.read().get(&file).cloned();
        if let Some(mon) = mon {
            mon.on_fsync_done(ok);
        }
    }
    fn sched(&self, point: &'static str, a: u64, b: u64) {
        if point == "range.entry" && a % 256 == 255 {
            let us = self.sched.read().as_ref().map(|c| c.repin_delay_us.load(Ordering::Relaxed)).unwrap_or(0);
            if us > 0 {
                std::thread::sleep(Duration::from_micros(us));
            }
        }
        // flush()'s retry loop sleeps up to 1 ms per round and only goes round again while a worker reports
        // retries (a reader holding an extent, a successor not durable yet): 30000 rounds of one call on a
        // device that answers is a flush that will never return
        if point == "force_flush.loop" && b == 30_000 {
            crate::callwatch::logical_livelock("flush", b);
        }
        if point == "read.before_pread" {
            THREAD_PREADS.with(|c| c.set(c.get() + 1));
        }
        let action = self.action.read().clone();
        if let Some(action) = action {
            if !IN_ACTION.with(|c| c.replace(true)) {
                action(point);
                IN_ACTION.with(|c| c.set(false));
            }
        }
        let ctl = self.sched.read().clone();
        if let Some(ctl) = ctl {
            ctl.at(point);
        }
    }
    fn extent_pinned(&self, file: FileId, sector: u64, blocks: u64) {
        let mon = self.files.read().get(&file).cloned();
        if let Some(mon) = mon {
            let mut s = mon.state.lock();
            s.pins.push((sector, blocks, std::thread::current().id()));
            s.pins_seen += 1;
        }
    }
    fn extent_unpinned(&self, file: FileId, sector: u64, blocks: u64) {
        let mon = self.files.read().get(&file).cloned();
        if let Some(mon) = mon {
            let mut s = mon.state.lock();
            let me = std::thread::current().id();
            if let Some(pos) = s.pins.iter().position(|p| *p == (sector, blocks, me)) {
                s.pins.swap_remove(pos);
            }
        }
    }
}

static HUB: OnceLock<Arc<Hub>> = OnceLock::new();

pub fn hub() -> &'static Arc<Hub> {
    HUB.get_or_init(|| {
        let hub = Arc::new(Hub { files: RwLock::new(HashMap::new()), sched: RwLock::new(None), uring: Mutex::new(UringBuffers::default()), racers: RwLock::new(Vec::new()), seen_unwatched: Mutex::new(Default::default()), action: RwLock::new(None) });
        feoxdb::verif::install(hub.clone());
        hub
    })
}

impl Hub {
    /// Start monitoring the file at `path` (must exist). Recording is on.
    pub fn watch(&self, path: &str) -> Arc<FileMon> {
        let id = file_id(path);
        let mon = Arc::new(FileMon { id, state: Mutex::new(FileState { record: true, ..Default::default() }) });
        self.files.write().insert(id, mon.clone());
        mon
    }

    pub fn unwatch(&self, mon: &FileMon) {
        self.files.write().remove(&mon.id);
    }

    /// Register a closure called once per unwatched file at its first device write; returns a handle for `remove_racer`.
    pub fn add_racer(&self, racer: Arc<dyn Fn(FileId) + Send + Sync>) -> u64 {
        static NEXT: AtomicU64 = AtomicU64::new(1);
        let id = NEXT.fetch_add(1, Ordering::Relaxed);
        self.racers.write().push((id, racer));
        id
    }

    pub fn remove_racer(&self, id: u64) {
        self.racers.write().retain(|(i, _)| *i != id);
    }

    /// (queued, completed, completed with error, still in flight = leaked on purpose, violations)
    pub fn uring_stats(&self) -> (u64, u64, u64, usize, Vec<String>) {
        let u = self.uring.lock();
        let mut violations = u.violations.clone();
        let (freed, ptr, len) = crate::watchalloc::freed_in_flight();
        if freed > 0 {
            violations.push(format!("{freed} deallocation(s) returned memory to the allocator that was still queued to the kernel (io_uring write submitted, completion not reaped); first: {len} bytes at {ptr:#x} - the kernel may still read it"));
        }
        (u.queued, u.completed, u.completed_with_error, u.in_flight.len(), violations)
    }

    /// Install (or remove) a closure run by the arriving thread at every scheduling point.
    pub fn set_action(&self, action: Option<Arc<dyn Fn(&'static str) + Send + Sync>>) {
        *self.action.write() = action;
    }

    pub fn set_sched(&self, ctl: Option<Arc<SchedCtl>>) {
        *self.sched.write() = ctl;
    }

    /// A client operation completed (used to tell whether a perturbed window was exercised).
    pub fn op_done(&self) {
        if let Some(ctl) = self.sched.read().as_ref() {
            ctl.op_done();
        }
    }
}

pub fn file_id(path: &str) -> FileId {
    use std::os::unix::fs::MetadataExt;
    let m = std::fs::metadata(path).expect("stat device file");
    (m.dev(), m.ino())
}
