//! fvh — feoxdb verification harness. One binary, sub-commands = engines.
#![allow(clippy::too_many_arguments, clippy::type_complexity)]

mod args;
mod callwatch;
mod crashimg;
mod engines;
mod indep;
mod lin;
mod model;
mod mon;
mod report;
mod rng;
mod storeutil;
mod values;
mod watchalloc;

#[global_allocator]
static GLOBAL: watchalloc::WatchAlloc = watchalloc::WatchAlloc;

fn main() {
    let args = args::Args::parse();
    let started = std::time::Instant::now();
    // every engine process: a watched store call that burns 30 s of its own thread's CPU time without
    // returning is a livelock; it becomes the (only) result of this process instead of a watchdog timeout
    if !matches!(args.engine.as_str(), "live-child" | "selftest") {
        let (out, engine, seed, tier) = (args.out.clone(), args.engine.clone(), args.seed, args.tier.clone());
        let argv: Vec<String> = std::env::args().collect();
        callwatch::supervise(
            30.0,
            std::sync::Arc::new(move |call: String, burnt: f64| {
                let mut r = report::Report::new(&engine, "per-call CPU budget");
                r.evaluations = 1;
                r.violation(
                    format!("livelock:{call}"),
                    format!("{call} has burnt {burnt:.0} s of its own thread's CPU time without returning (a retry loop that makes no progress)"),
                    serde_json::json!({"engine": engine, "argv": argv}),
                );
                let mut json = r.to_json();
                json["wall_s"] = serde_json::json!(started.elapsed().as_secs_f64());
                json["seed"] = serde_json::json!(seed);
                json["tier"] = serde_json::json!(tier);
                if let Some(path) = &out {
                    let _ = std::fs::write(path, serde_json::to_string_pretty(&json).unwrap());
                }
                eprintln!("[{engine}] LIVELOCK {call} after {burnt:.0} s of CPU");
                std::process::exit(0);
            }),
        );
    }
    let report = match args.engine.as_str() {
        "selftest" => {
            match indep::selftest() {
                Ok(()) => println!("selftest ok"),
                Err(e) => {
                    println!("selftest FAILED: {e}");
                    std::process::exit(2);
                }
            }
            return;
        }
        "fsm" => engines::fsm::run(&args),
        "model" => engines::model::run(&args),
        "crash" => engines::crash::run(&args),
        "conc" => engines::conc::run(&args),
        "fault" => engines::fault::run(&args),
        "fault-child" => engines::fault::child(&args),
        "live" => engines::live::run(&args),
        "live-child" => engines::live::child(&args),
        "space" => engines::space::run(&args),
        "fuzzopen" => engines::fuzzopen::run(&args),
        "fuzz-child" => engines::fuzzopen::child(&args),
        "migrate" => engines::migrate::run(&args),
        "san" => engines::san::run(&args),
        "cache" => engines::cache::run(&args),
        "sweep" => engines::sweep::run(&args),
        "scratch" => engines::scratchpad::run(&args),
        other => {
            eprintln!("unknown engine {other}");
            std::process::exit(2);
        }
    };
    let mut json = report.to_json();
    json["wall_s"] = serde_json::json!(started.elapsed().as_secs_f64());
    json["seed"] = serde_json::json!(args.seed);
    json["tier"] = serde_json::json!(args.tier);
    let text = serde_json::to_string_pretty(&json).unwrap();
    match &args.out {
        Some(path) => std::fs::write(path, text).expect("write report"),
        None => println!("{text}"),
    }
    eprintln!(
        "[{}] evaluations={} distinct_nontrivial={} violations={} inconclusive={} wall={:.1}s",
        report.engine,
        report.evaluations,
        report.nontrivial.len(),
        report.violations.len(),
        report.inconclusive.len(),
        started.elapsed().as_secs_f64()
    );
}
