//! fvh — feoxdb verification harness. One binary, sub-commands = engines.
#![allow(clippy::too_many_arguments, clippy::type_complexity)]

mod args;
mod callwatch;
mod crashimg;
mod engines;
mod indep;
mod lin;
mod model;
mod mon;
mod report;
mod rng;
mod storeutil;
mod values;

fn main() {
    let args = args::Args::parse();
    let started = std::time::Instant::now();
    let report = match args.engine.as_str() {
        "selftest" => {
            match indep::selftest() {
                Ok(()) => println!("selftest ok"),
                Err(e) => {
                    println!("selftest FAILED: {e}");
                    std::process::exit(2);
                }
            }
            return;
        }
        "fsm" => engines::fsm::run(&args),
        "model" => engines::model::run(&args),
        "crash" => engines::crash::run(&args),
        "conc" => engines::conc::run(&args),
        "fault" => engines::fault::run(&args),
        "fault-child" => engines::fault::child(&args),
        "live" => engines::live::run(&args),
        "live-child" => engines::live::child(&args),
        "space" => engines::space::run(&args),
        "fuzzopen" => engines::fuzzopen::run(&args),
        "fuzz-child" => engines::fuzzopen::child(&args),
        "migrate" => engines::migrate::run(&args),
        "san" => engines::san::run(&args),
        "cache" => engines::cache::run(&args),
        "sweep" => engines::sweep::run(&args),
        "scratch" => engines::scratchpad::run(&args),
        other => {
            eprintln!("unknown engine {other}");
            std::process::exit(2);
        }
    };
    let mut json = report.to_json();
    json["wall_s"] = serde_json::json!(started.elapsed().as_secs_f64());
    json["seed"] = serde_json::json!(args.seed);
    json["tier"] = serde_json::json!(args.tier);
    let text = serde_json::to_string_pretty(&json).unwrap();
    match &args.out {
        Some(path) => std::fs::write(path, text).expect("write report"),
        None => println!("{text}"),
    }
    eprintln!(
        "[{}] evaluations={} distinct_nontrivial={} violations={} inconclusive={} wall={:.1}s",
        report.engine,
        report.evaluations,
        report.nontrivial.len(),
        report.violations.len(),
        report.inconclusive.len(),
        started.elapsed().as_secs_f64()
    );
}
