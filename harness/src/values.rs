//! M2 — self-describing unique values. A reader can decide from the bytes alone
//! which key and which write a value belongs to and that it is complete.

use crate::indep::crc32c_fast;
use crate::rng::Rng;

pub const MIN_LEN: usize = 22;

#[derive(Clone, Copy, Debug, PartialEq, Eq, Hash, PartialOrd, Ord)]
pub struct Tag {
    pub key_id: u32,
    pub writer: u16,
    pub seq: u32,
}

/// Build a value of exactly `len` bytes (>= MIN_LEN) identifying (key_id, writer, seq).
pub fn make(tag: Tag, len: usize) -> Vec<u8> {
    let len = len.max(MIN_LEN);
    let mut v = Vec::with_capacity(len);
    v.extend_from_slice(b"FV");
    v.push(1);
    v.push(0);
    v.extend_from_slice(&tag.key_id.to_le_bytes());
    v.extend_from_slice(&tag.writer.to_le_bytes());
    v.extend_from_slice(&tag.seq.to_le_bytes());
    v.extend_from_slice(&(len as u32).to_le_bytes());
    let body = len - MIN_LEN;
    let mut rng = Rng::derive(0x5eed, ((tag.key_id as u64) << 32) | tag.seq as u64, tag.writer as u64);
    let start = v.len();
    v.resize(start + body, 0);
    rng.fill(&mut v[start..]);
    let c = crc32c_fast(0, &v);
    v.extend_from_slice(&c.to_le_bytes());
    v
}

/// Overwrite part of the body (keeping header and re-stamping the crc). Used for
/// "hostile" values that embed record-head / marker images.
pub fn make_with_body(tag: Tag, len: usize, patch: impl FnOnce(&mut [u8])) -> Vec<u8> {
    let mut v = make(tag, len);
    let n = v.len();
    patch(&mut v[18..n - 4]);
    let c = crc32c_fast(0, &v[..n - 4]);
    v[n - 4..].copy_from_slice(&c.to_le_bytes());
    v
}

pub fn check(bytes: &[u8]) -> Result<Tag, String> {
    if bytes.len() < MIN_LEN {
        return Err(format!("too short ({})", bytes.len()));
    }
    if &bytes[..2] != b"FV" || bytes[2] != 1 {
        return Err("bad magic".into());
    }
    let key_id = u32::from_le_bytes(bytes[4..8].try_into().unwrap());
    let writer = u16::from_le_bytes(bytes[8..10].try_into().unwrap());
    let seq = u32::from_le_bytes(bytes[10..14].try_into().unwrap());
    let len = u32::from_le_bytes(bytes[14..18].try_into().unwrap()) as usize;
    if len != bytes.len() {
        return Err(format!("length field {} != {}", len, bytes.len()));
    }
    let n = bytes.len();
    let c = u32::from_le_bytes(bytes[n - 4..].try_into().unwrap());
    if crc32c_fast(0, &bytes[..n - 4]) != c {
        return Err("crc mismatch (torn or mixed value)".into());
    }
    Ok(Tag { key_id, writer, seq })
}

/// Short printable description of arbitrary bytes for messages / replays.
pub fn describe(bytes: &[u8]) -> String {
    match check(bytes) {
        Ok(t) => format!("V(k{} w{} #{} len{})", t.key_id, t.writer, t.seq, bytes.len()),
        Err(_) => {
            let head: String = bytes.iter().take(12).map(|b| format!("{b:02x}")).collect();
            format!("raw[{}]{}", bytes.len(), head)
        }
    }
}
