use std::collections::HashMap;

#[derive(Clone, Debug)]
pub struct Args {
    pub engine: String,
    pub seed: u64,
    pub tier: String,
    pub out: Option<String>,
    pub kv: HashMap<String, String>,
}

impl Args {
    pub fn parse() -> Args {
        let mut it = std::env::args().skip(1);
        let engine = it.next().unwrap_or_else(|| "help".into());
        let mut kv = HashMap::new();
        while let Some(a) = it.next() {
            if let Some(k) = a.strip_prefix("--") {
                let v = it.next().unwrap_or_default();
                kv.insert(k.to_string(), v);
            }
        }
        let seed = kv.get("seed").and_then(|s| s.parse().ok()).unwrap_or(1);
        let tier = kv.get("tier").cloned().unwrap_or_else(|| "quick".into());
        let out = kv.get("out").cloned();
        Args { engine, seed, tier, out, kv }
    }
    pub fn get(&self, k: &str) -> Option<&str> {
        self.kv.get(k).map(|s| s.as_str())
    }
    pub fn num(&self, k: &str, default: u64) -> u64 {
        self.kv.get(k).and_then(|s| s.parse().ok()).unwrap_or(default)
    }
    /// signatures of recorded known findings (passed by the driver) — engines keep exploring past them
    pub fn known(&self) -> Vec<String> {
        self.get("known").map(|s| s.split(',').filter(|x| !x.is_empty()).map(|x| x.to_string()).collect()).unwrap_or_default()
    }
    pub fn thorough(&self) -> bool {
        self.tier == "thorough"
    }
}
