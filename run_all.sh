#!/bin/bash
# Run every registered check (quick by default) and summarise. Usage: ./run_all.sh [quick|thorough] [ids...]
cd "$(dirname "$0")"
tier=${1:-quick}; shift
ids="$@"
if [ -z "$ids" ]; then ids=$(python3 -c "import json; print(' '.join(c['property_id'] for c in json.load(open('MANIFEST.json'))['checks']))"); fi
rc=0
for id in $ids; do
  out=$(./check $id --tier $tier 2>&1); code=$?
  echo "$out" | grep -E "^(VIOLATION|KNOWN-FINDING|BROKEN|INCONCLUSIVE|$id )" | cut -c1-300
  if [ $code -ne 0 ]; then rc=1; echo "  -> exit $code"; fi
done
exit $rc
